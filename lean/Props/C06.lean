import Proofs.AlignSingleRun
import Proofs.EditsInfer
import Proofs.EditsSingleRun
import Proofs.EditsSubhunk
import Proofs.EmphPaint
import Proofs.PairThresholds
/-!
C06 — within-line emphasis marks exactly what changed between paired lines.

Every theorem is about the executable model functions of `DeltaModel/Align.lean` and
`DeltaModel/Edits.lean` (what `drv_edits` runs and what the correspondence check compares with
`src/align.rs` / `src/edits.rs`). Cost constants, candidate order, border initialisation and the
comparison operators of the pairing test come from `DeltaModel/Generated/AlignCosts.lean`,
regenerated from the source on every run.

Vocabulary (defined in `Proofs/`): `ValidScript ops x y` — `ops` is an edit script from `x` to
`y`; `scriptCost` — cost of a script; `secsG` — clusters of a list of sections; `keptText e` —
text of the sections not tagged `e`; `SpansOk` — regex spans ordered and in range; `WsCons` —
tokens with equal text have the same whitespace class.
-/
set_option linter.unusedVariables false
namespace C06
open Align Edits Generated.Align

/-! ## tokenize -/

/-- Tokens concatenate to the line; the first token is empty. -/
theorem tokenize_partition (line : List G) (spans : List (Nat × Nat)) (toks : List Tok)
    (h : tokenize line spans = .ok toks) : toks.flatten = line ∧ toks.head? = some [] :=
  tokenize_partition_aux line spans toks h

/-- No slice panic on spans as `find_iter` yields them. -/
theorem tokenize_total (line : List G) (spans : List (Nat × Nat))
    (h : SpansOk line.length 0 spans) : ∃ toks, tokenize line spans = .ok toks :=
  Edits.tokenize_total line spans h

example : tokenize [⟨['a'], 1, false⟩, ⟨[' '], 1, true⟩, ⟨['b'], 1, false⟩, ⟨['c'], 1, false⟩] [(0, 1), (2, 4)]
    = .ok [[], [⟨['a'], 1, false⟩], [⟨[' '], 1, true⟩], [⟨['b'], 1, false⟩, ⟨['c'], 1, false⟩]] := by rfl
example : SpansOk 4 0 [(0, 1), (2, 4)] := by simp [SpansOk]

/-! ## alignment -/

/-- The operations read back from the table are a valid edit script (no-op-aligned tokens are
equal, counts add up) whenever both sequences start with the same token — which `tokenize`
guarantees. The read-back cannot fail. -/
theorem ops_valid_script {α : Type} [DecidableEq α] (t : α) (x y : List α) :
    ∃ ops, operations (t :: x) (t :: y) = .ok ops ∧ ValidScript ops (t :: x) (t :: y) ∧
      countOp .deletion ops + countOp .noOp ops = x.length + 1 ∧
      countOp .insertion ops + countOp .noOp ops = y.length + 1 := by
  have hv := opsSpec_valid t x y
  exact ⟨_, operations_eq _ _, hv, by simpa using hv.length_left, by simpa using hv.length_right⟩

example : operations [0, 1, 2, 3] [0, 1, 5, 2, 3] = .ok [.noOp, .noOp, .insertion, .noOp, .noOp] := by rfl

/-- Without equal first tokens the claim is false (all border cells point at cell 0): the
reason `tokenize` prepends the empty token. -/
theorem ops_valid_script_needs_equal_heads :
    ∃ (x y : List Nat) (ops : List Op), operations x y = .ok ops ∧
      ¬ (countOp .deletion ops + countOp .noOp ops = x.length ∧
         countOp .insertion ops + countOp .noOp ops = y.length) :=
  ⟨[1, 2], [3, 4], _, rfl, by decide⟩

/-- The cost in the final cell is the cost of the script read back, and no valid script is
cheaper (2 per deleted/inserted token, +1 per group of edits opened after a no-op). -/
theorem dp_optimal {α : Type} [DecidableEq α] (t : α) (x y : List α) :
    ∃ ops c, operationsAndCost (t :: x) (t :: y) = .ok (ops, c) ∧ scriptCost ops = c ∧
      ∀ s, ValidScript s (t :: x) (t :: y) → c ≤ scriptCost s := by
  have ho := opsSpec_optimal t x y
  exact ⟨_, _, operationsAndCost_eq _ _, ho.1, ho.2⟩

example : (operationsAndCost [0, 1, 2, 3] [0, 1, 5, 3]).map (·.2) =
    .ok (deletionCost + insertionCost + initialMismatchPenalty) := by
  rfl

/-- Pure insertion of one contiguous run `c :: b` of tokens: the operations are no-ops, exactly
`|b|+1` insertions, no-ops — one contiguous emphasised stretch of the size of the difference,
and nothing emphasised on the other line. -/
theorem single_run_insertion {α : Type} [DecidableEq α] (t : α) (pre suf : List α) (c : α) (b : List α) :
    ∃ k m, operations (t :: (pre ++ suf)) (t :: (pre ++ (c :: b) ++ suf)) =
      .ok (List.replicate k .noOp ++ List.replicate (b.length + 1) .insertion ++ List.replicate m .noOp) := by
  obtain ⟨k, m, h⟩ := opsSpec_single_insertion t pre suf c b
  exact ⟨k, m, by rw [operations_eq, h]⟩

/-- Dually for a pure deletion. -/
theorem single_run_deletion {α : Type} [DecidableEq α] (t : α) (pre suf : List α) (c : α) (b : List α) :
    ∃ k m, operations (t :: (pre ++ (c :: b) ++ suf)) (t :: (pre ++ suf)) =
      .ok (List.replicate k .noOp ++ List.replicate (b.length + 1) .deletion ++ List.replicate m .noOp) := by
  obtain ⟨k, m, h⟩ := opsSpec_single_deletion t pre suf c b
  exact ⟨k, m, by rw [operations_eq, h]⟩

example : operations [0, 1, 2] [0, 1, 7, 1, 2] = .ok [.noOp, .noOp, .insertion, .insertion, .noOp] := by rfl

/-
`single_run` for a general *replacement* run (`x = pre ++ a ++ suf`, `y = pre ++ b ++ suf`, both
`a` and `b` non-empty) is NOT proved and is false as a statement about token counts: when `a`
and `b` share tokens a cheaper script with two groups exists (`a = [u, v]`, `b = [v, w]`:
delete `u`, keep `v`, insert `w` costs 6 < 9). What is proved is the pure insertion / deletion
case above; replacement runs are covered by the exhaustive small-scope test of the check.
-/

/-! ## annotate -/

/-- `annotate` cannot fail on tokenisable lines; the sections of each side concatenate to the
line; with distinct tags, deleting the emphasised sections from both lines leaves the same text. -/
theorem annotate_total (t : Tags) (m p : Line)
    (hm : SpansOk m.gs.length 0 m.spans) (hp : SpansOk p.gs.length 0 p.spans) :
    ∃ a, annotatePair t m p = .ok a := by
  obtain ⟨x, hx⟩ := Edits.tokenize_total _ _ hm
  obtain ⟨y, hy⟩ := Edits.tokenize_total _ _ hp
  obtain ⟨a, ha, _⟩ := annotatePair_of_tokens t m p x y hx hy
  exact ⟨a, ha⟩

theorem annotate_partition (t : Tags) (m p : Line) (a : Annotated) (h : annotatePair t m p = .ok a) :
    secsG a.minus = m.gs ∧ secsG a.plus = p.gs := by
  obtain ⟨x, y, hx, hy⟩ := annotatePair_ok_tokens t m p a h
  obtain ⟨a', ha', spec⟩ := annotatePair_of_tokens t m p x y hx hy
  rw [h] at ha'; injection ha' with ha'; subst ha'
  exact ⟨spec.minus_partition, spec.plus_partition⟩

theorem annotate_sound (t : Tags) (m p : Line) (a : Annotated) (h : annotatePair t m p = .ok a)
    (hd : t.noopDel ≠ t.del) (hi : t.noopIns ≠ t.ins) :
    keptText t.del a.minus = keptText t.ins a.plus := by
  obtain ⟨x, y, hx, hy⟩ := annotatePair_ok_tokens t m p a h
  obtain ⟨a', ha', spec⟩ := annotatePair_of_tokens t m p x y hx hy
  rw [h] at ha'; injection ha' with ha'; subst ha'
  exact spec.sound hd hi

/-- Identical lines (more generally: lines whose token texts coincide) carry no emphasis: every
section has the line's no-op tag. -/
theorem identical_no_emph (t : Tags) (m : Line) (a : Annotated) (h : annotatePair t m m = .ok a) :
    (∀ s ∈ a.minus, s.tag = t.noopDel) ∧ (∀ s ∈ a.plus, s.tag = t.noopIns) := by
  obtain ⟨x, y, hx, hy⟩ := annotatePair_ok_tokens t m m a h
  have : x = y := by rw [hx] at hy; injection hy
  subst this
  exact annotatePair_identical t m m x x a hx hx rfl h

/-- Section-level `single_run`: when the plus line's tokens are the minus line's tokens with one
contiguous run `c :: b` inserted, the minus line carries no emphasis, the plus line carries
exactly one emphasised section (one contiguous stretch), and its text has exactly the size of the
difference. (`emphCount e secs` = number of sections tagged `e`; `emphText` = their text.) -/
theorem single_run_insertion_sections (t : Tags) (m p : Line) (x y : List Tok) (a : Annotated)
    (hx : tokenize m.gs m.spans = .ok x) (hy : tokenize p.gs p.spans = .ok y)
    (pre suf : List (List Char)) (c : List Char) (b : List (List Char))
    (h0 : tokTexts x = [] :: (pre ++ suf)) (h1 : tokTexts y = [] :: (pre ++ (c :: b) ++ suf))
    (hd : t.noopDel ≠ t.del) (hi : t.noopIns ≠ t.ins) (h : annotatePair t m p = .ok a) :
    (∀ s ∈ a.minus, s.tag = t.noopDel) ∧ emphCount t.ins a.plus = 1 ∧
      (emphText t.ins a.plus).length + (text m.gs).length = (text p.gs).length :=
  annotatePair_single_insertion t m p x y a hx hy pre suf c b h0 h1 hd hi h

/-- Dually for a pure deletion. -/
theorem single_run_deletion_sections (t : Tags) (m p : Line) (x y : List Tok) (a : Annotated)
    (hx : tokenize m.gs m.spans = .ok x) (hy : tokenize p.gs p.spans = .ok y)
    (pre suf : List (List Char)) (c : List Char) (b : List (List Char))
    (h0 : tokTexts x = [] :: (pre ++ (c :: b) ++ suf)) (h1 : tokTexts y = [] :: (pre ++ suf))
    (hd : t.noopDel ≠ t.del) (hi : t.noopIns ≠ t.ins) (h : annotatePair t m p = .ok a) :
    (∀ s ∈ a.plus, s.tag = t.noopIns) ∧ emphCount t.del a.minus = 1 ∧
      (emphText t.del a.minus).length + (text p.gs).length = (text m.gs).length :=
  annotatePair_single_deletion t m p x y a hx hy pre suf c b h0 h1 hd hi h

private def gA : G := ⟨['a'], 1, false⟩
private def gB : G := ⟨['b'], 1, false⟩
private def gS : G := ⟨[' '], 1, true⟩
private def lineAB : Line := ⟨[gA, gS, gB], [(0, 1), (2, 3)]⟩
private def lineAA : Line := ⟨[gA, gS, gA], [(0, 1), (2, 3)]⟩

example : annotatePair ⟨0, 1, 2, 3⟩ lineAB lineAA =
    .ok ⟨[⟨0, [gA, gS]⟩, ⟨1, [gB]⟩], [⟨2, [gA]⟩, ⟨2, [gS]⟩, ⟨3, [gA]⟩], 2, noopDenomWeight * 1 + 1 + 1⟩ := by rfl

/-! ## infer_edits -/

/-- Pairs never cross and every line appears exactly once, in order. -/
theorem pairing_monotone (cfg : Cfg) (minus plus : List Line) (nd ni : List Tag) (r : Inferred)
    (h : inferEdits cfg minus plus nd ni = .ok r) :
    r.alignment.filterMap (·.1) = List.range minus.length ∧
    r.alignment.filterMap (·.2) = List.range plus.length ∧
    r.minus.length = minus.length ∧ r.plus.length = plus.length := by
  obtain ⟨st, inv, hpi, rfl⟩ := inferEdits_inv r h
  exact ⟨inv.al_m, by rw [inv.al_p, hpi], inv.am_len, by rw [inv.ap_len, hpi]⟩

/-- A line without partner carries no emphasis: all its sections have its own no-op tag (and
they concatenate to the line). -/
theorem unpaired_no_emph (cfg : Cfg) (minus plus : List Line) (nd ni : List Tag) (r : Inferred)
    (h : inferEdits cfg minus plus nd ni = .ok r) :
    (∀ i, (some i, none) ∈ r.alignment → ∃ tag ml, nd[i]? = some tag ∧ minus[i]? = some ml ∧
        r.minus[i]? = some [⟨tag, ml.gs⟩]) ∧
    (∀ j, (none, some j) ∈ r.alignment → ∃ tag pl secs, ni[j]? = some tag ∧ plus[j]? = some pl ∧
        r.plus[j]? = some secs ∧ (∀ s ∈ secs, s.tag = tag) ∧ secsG secs = pl.gs) := by
  obtain ⟨st, inv, hpi, rfl⟩ := inferEdits_inv r h
  exact ⟨inv.unp_m, inv.unp_p⟩

/-- A paired line is annotated by `annotate` of exactly that pair (so `annotate_partition`,
`annotate_sound`, `identical_no_emph` apply to it), and the pair passed the distance test. -/
theorem paired_is_annotate (cfg : Cfg) (minus plus : List Line) (nd ni : List Tag) (r : Inferred)
    (h : inferEdits cfg minus plus nd ni = .ok r) (i j : Nat) (hij : (some i, some j) ∈ r.alignment) :
    ∃ ml pl tnd tni a, minus[i]? = some ml ∧ plus[j]? = some pl ∧ nd[i]? = some tnd ∧ tni ∈ ni ∧
      annotatePair ⟨tnd, cfg.del, tni, cfg.ins⟩ ml pl = .ok a ∧
      r.minus[i]? = some a.minus ∧ r.plus[j]? = some a.plus ∧
      isHomologousPair cfg (decide (minus.length = plus.length)) a.numer a.denom = true := by
  obtain ⟨st, inv, hpi, rfl⟩ := inferEdits_inv r h
  obtain ⟨ml, pl, tnd, tni, a, h1, h2, h3, h4, h5, h6, h7, h8, _⟩ := inv.pair i j hij
  exact ⟨ml, pl, tnd, tni, a, h1, h2, h3, h4, h5, h6, h7, h8⟩

/-- `distance ≤ 1` always holds, so a threshold `p/q ≥ 1` (compared with `<=`) accepts all. -/
theorem acceptsAll_of_threshold_ge_one (cfg : Cfg) (sameLen : Bool)
    (hq : 0 < cfg.maxDen) (hp : cfg.maxDen ≤ cfg.maxNum) : AcceptsAll cfg sameLen := by
  intro numer denom hnd
  unfold isHomologousPair
  have : distanceWithin maxTestStrict numer denom cfg.maxNum cfg.maxDen = true := by
    have hs : maxTestStrict = false := by decide
    unfold distanceWithin
    rw [hs]
    split
    · simp only [Bool.false_eq_true, if_false, decide_eq_true_eq]
      calc numer * cfg.maxDen ≤ denom * cfg.maxNum := Nat.mul_le_mul hnd hp
        _ = cfg.maxNum * denom := Nat.mul_comm _ _
    · simp
  simp [this]

/-- With the maximum distance set to 1 (or more) the i-th removed line is paired with the i-th
added line, and only such pairs exist. -/
theorem pairing_distance_one (cfg : Cfg) (minus plus : List Line) (nd ni : List Tag) (r : Inferred)
    (hq : 0 < cfg.maxDen) (hp : cfg.maxDen ≤ cfg.maxNum)
    (h : inferEdits cfg minus plus nd ni = .ok r) :
    (∀ i j, (some i, some j) ∈ r.alignment → i = j) ∧
    (∀ i, i < min minus.length plus.length → (some i, some i) ∈ r.alignment) :=
  inferEdits_acc (acceptsAll_of_threshold_ge_one cfg _ hq hp) r h

/-- With both thresholds 0, every emphasised section of a paired line contributes 0 to the
distance; with the repaired `distance_contribution` (generated flag `nonBlankCountsAtLeastOne`)
that means it is *blank after trimming* — the lines differ in nothing but whitespace — and with
the old form only that its trimmed display width is 0. (Plus side: assuming tokens with equal
text have the same whitespace class, because the whitespace test of the coalescing rule looks at
the minus section only.) -/
theorem pairing_distance_zero (cfg : Cfg) (minus plus : List Line) (nd ni : List Tag) (r : Inferred)
    (hmax : cfg.maxNum = 0) (hnaive : cfg.naiveNum = 0) (hq : 0 < cfg.maxDen) (hq' : 0 < cfg.naiveDen)
    (hnd : ∀ tag ∈ nd, tag ≠ cfg.del) (hni : ∀ tag ∈ ni, tag ≠ cfg.ins)
    (h : inferEdits cfg minus plus nd ni = .ok r) (i j : Nat) (hij : (some i, some j) ∈ r.alignment) :
    ∃ secsM secsP, r.minus[i]? = some secsM ∧ r.plus[j]? = some secsP ∧
      (∀ s ∈ secsM, s.tag = cfg.del → distanceContribution s.gs = 0 ∧
          (nonBlankCountsAtLeastOne = true → trim s.gs = [])) ∧
      ((∀ x y ml pl, minus[i]? = some ml → plus[j]? = some pl → tokenize ml.gs ml.spans = .ok x →
          tokenize pl.gs pl.spans = .ok y → WsCons x y) →
        ∀ s ∈ secsP, s.tag = cfg.ins → distanceContribution s.gs = 0 ∧
          (nonBlankCountsAtLeastOne = true → trim s.gs = [])) := by
  obtain ⟨ml, pl, tnd, tni, a, h1, h2, h3, h4, h5, h6, h7, h8⟩ :=
    paired_is_annotate cfg minus plus nd ni r h i j hij
  have hnum : a.numer = 0 := by
    have hle := annotatePair_numer_le _ _ _ _ h5
    unfold isHomologousPair distanceWithin at h8
    have hs1 : maxTestStrict = false := by decide
    have hs2 : naiveTestStrict = false := by decide
    rw [hs1, hs2, hmax, hnaive] at h8
    by_cases hd : a.denom > 0
    · simp only [hd, if_true, Bool.false_eq_true, if_false, Nat.zero_mul, Nat.le_zero_eq,
        Nat.mul_eq_zero, Bool.or_eq_true, Bool.and_eq_true, decide_eq_true_eq] at h8
      omega
    · omega
  obtain ⟨x, y, hx, hy⟩ := annotatePair_ok_tokens _ ml pl a h5
  obtain ⟨a', ha', spec⟩ := annotatePair_of_tokens ⟨tnd, cfg.del, tni, cfg.ins⟩ ml pl x y hx hy
  rw [h5] at ha'; injection ha' with ha'; subst ha'
  refine ⟨a.minus, a.plus, h6, h7, ?_, ?_⟩
  · intro s hs htag
    have h0 : distanceContribution s.gs = 0 := by
      have := spec.emph_minus (hnd tnd (List.mem_of_getElem? h3)) s hs htag
      omega
    exact ⟨h0, fun hf => contribution_zero_blank _ hf h0⟩
  · intro hw s hs htag
    have h0 : distanceContribution s.gs = 0 := by
      have := spec.emph_plus (hni tni h4) (hw x y ml pl h1 h2 hx hy) s hs htag
      omega
    exact ⟨h0, fun hf => contribution_zero_blank _ hf h0⟩

/-- The source as it is now has the repaired form, so at threshold 0 the emphasised sections of the
removed line of a pair are blank after trimming: paired lines differ in nothing but whitespace.
(This theorem stops checking if the repair is reverted; `pairing_distance_zero` covers both forms.) -/
theorem pairing_distance_zero_blank (cfg : Cfg) (minus plus : List Line) (nd ni : List Tag) (r : Inferred)
    (hmax : cfg.maxNum = 0) (hnaive : cfg.naiveNum = 0) (hq : 0 < cfg.maxDen) (hq' : 0 < cfg.naiveDen)
    (hnd : ∀ tag ∈ nd, tag ≠ cfg.del) (hni : ∀ tag ∈ ni, tag ≠ cfg.ins)
    (h : inferEdits cfg minus plus nd ni = .ok r) (i j : Nat) (hij : (some i, some j) ∈ r.alignment) :
    ∃ secsM, r.minus[i]? = some secsM ∧ ∀ s ∈ secsM, s.tag = cfg.del → trim s.gs = [] := by
  obtain ⟨secsM, _, hm, _, h1, _⟩ :=
    pairing_distance_zero cfg minus plus nd ni r hmax hnaive hq hq' hnd hni h i j hij
  exact ⟨secsM, hm, fun s hs htag => (h1 s hs htag).2 (by decide)⟩

/-- threshold 0.6, naive threshold 0; deletion tag 1, insertion tag 3 -/
private def cfg6 : Cfg := ⟨1, 3, 6, 10, 0, 1⟩
/-- threshold 1.0 -/
private def cfg10 : Cfg := ⟨1, 3, 10, 10, 0, 1⟩
/-- threshold 0 -/
private def cfg0 : Cfg := ⟨1, 3, 0, 1, 0, 1⟩
private def lineB : Line := ⟨[gB], [(0, 1)]⟩
private def lineC : Line := ⟨[⟨['c'], 1, false⟩], [(0, 1)]⟩
private def lineA__B : Line := ⟨[gA, gS, gS, gB], [(0, 1), (3, 4)]⟩

-- a pair and an unpaired minus line (hypotheses of `pairing_monotone`, `unpaired_no_emph`, `paired_is_annotate`)
example : (inferEdits cfg6 [lineAB, lineAA] [lineAA] [0, 0] [2]).map (·.alignment)
    = .ok [(some 0, some 0), (some 1, none)] := by rfl
example : (inferEdits cfg6 [lineAB, lineAA] [lineAA] [0, 0] [2]).map (·.minus)
    = .ok [[⟨0, [gA, gS]⟩, ⟨1, [gB]⟩], [⟨0, [gA, gS, gA]⟩]] := by rfl
-- a rejected candidate emitted before the pair, then nothing left
example : (inferEdits cfg6 [lineAB] [lineC, lineAA] [0] [2, 2]).map (·.alignment)
    = .ok [(none, some 0), (some 0, some 1)] := by rfl
-- threshold 1: positional pairs whatever the lines (`pairing_distance_one`)
example : (inferEdits cfg10 [lineAB, lineB] [lineB, lineAA, lineAB] [0, 0] [2, 2, 2]).map (·.alignment)
    = .ok [(some 0, some 0), (some 1, some 1), (none, some 2)] := by rfl
-- threshold 0: a whitespace-only difference is paired, a real difference is not (`pairing_distance_zero`)
example : (inferEdits cfg0 [lineAB] [lineA__B] [0] [2]).map (·.alignment) = .ok [(some 0, some 0)] := by rfl
example : (inferEdits cfg0 [lineAB] [lineAA] [0] [2]).map (·.alignment) = .ok [(some 0, none), (none, some 0)] := by rfl
-- threshold 0: a zero-width non-blank difference (U+200B, width 0) is not paired any more
example : (inferEdits cfg0 [lineAB] [⟨[gA, gS, ⟨['\u200b'], 0, false⟩, gB], [(0, 1), (3, 4)]⟩] [0] [2]).map (·.alignment)
    = .ok [(some 0, none), (none, some 0)] := by rfl
-- identical lines: no emphasis (`identical_no_emph`)
example : (annotatePair ⟨0, 1, 2, 3⟩ lineAB lineAB).map (fun a => (a.minus.map (·.tag), a.plus.map (·.tag)))
    = .ok ([0], [2]) := by rfl

/-! ## subhunk formation (`handle_hunk_line`): which lines can be paired at all -/

/-- Every emphasis pair `(m, p)` (input positions within the hunk) consists of a removed line `m`
and an added line `p` of the same buffered block; `m` comes before `p` in the input, every line
from `m` to `p` is a removed or an added line (no context line between them), and there is no
added→removed boundary between them. The flush rules are the generated table
`Generated.HunkFlush`; the buffer size is arbitrary. -/
theorem pairs_only_within_subhunk (cfg : Cfg) (lineAt : Nat → Line) (tagM tagP : Tag) (bufSize : Nat)
    (kinds : List Subhunk.Kind) (b : List Nat × List Nat) (hb : b ∈ Subhunk.subhunks bufSize kinds)
    (ps : List (Nat × Nat)) (h : Subhunk.blockPairs cfg lineAt tagM tagP b = .ok ps)
    (m p : Nat) (hmp : (m, p) ∈ ps) :
    kinds[m]? = some .minus ∧ kinds[p]? = some .plus ∧ m < p ∧
    (∀ k, m ≤ k → k ≤ p → kinds[k]? = some .minus ∨ kinds[k]? = some .plus) ∧
    (∀ k, m ≤ k → k + 1 ≤ p → ¬ (kinds[k]? = some .plus ∧ kinds[k + 1]? = some .minus)) := by
  have g := Subhunk.subhunks_good bufSize kinds b hb
  obtain ⟨hm, hp⟩ := Subhunk.blockPairs_mem cfg lineAt tagM tagP b ps h m p hmp
  obtain ⟨h1, h2, h3⟩ := g.between hm hp
  exact ⟨g.mkind m hm, g.pkind p hp, h1, h2, h3⟩

/-- An added line that precedes a removed line is never paired with it. -/
theorem added_before_removed_never_paired (cfg : Cfg) (lineAt : Nat → Line) (tagM tagP : Tag) (bufSize : Nat)
    (kinds : List Subhunk.Kind) (b : List Nat × List Nat) (hb : b ∈ Subhunk.subhunks bufSize kinds)
    (ps : List (Nat × Nat)) (h : Subhunk.blockPairs cfg lineAt tagM tagP b = .ok ps)
    (m p : Nat) (hpm : p < m) : (m, p) ∉ ps := by
  intro hmp
  have := (pairs_only_within_subhunk cfg lineAt tagM tagP bufSize kinds b hb ps h m p hmp).2.2.1
  omega

-- `+` directly followed by `-` (the second block starts at the removed line), alternating lines,
-- a context line in between, and the overflow flush with buffer size 1
example : Subhunk.subhunks 32 [.zero, .plus, .minus, .zero] = [([], [1]), ([2], [])] := by decide
example : Subhunk.subhunks 32 [.minus, .plus, .minus, .plus] = [([0], [1]), ([2], [3])] := by decide
example : Subhunk.subhunks 32 [.minus, .minus, .plus, .zero, .plus] = [([0, 1], [2]), ([], [4])] := by decide
example : Subhunk.subhunks 1 [.minus, .minus, .minus, .plus] = [([0, 1], []), ([2], [3])] := by decide

/-! ## make_lines_have_homolog -/

/-- One flag per minus line and per plus line, in order; a flag is set iff the line is paired. -/
theorem homolog_flags (al : List (Option Nat × Option Nat)) :
    (makeLinesHaveHomolog al).1.length = (al.filterMap (·.1)).length ∧
    (makeLinesHaveHomolog al).2.length = (al.filterMap (·.2)).length := by
  unfold makeLinesHaveHomolog
  constructor
  · induction al with
    | nil => rfl
    | cons e al ih =>
      obtain ⟨a, b⟩ := e
      cases a <;> simp_all
  · induction al with
    | nil => rfl
    | cons e al ih =>
      obtain ⟨a, b⟩ := e
      cases b <;> simp_all

example : makeLinesHaveHomolog [(none, some 0), (some 0, some 1), (some 1, none)]
    = ([true, false], [false, true]) := by decide

end C06

/-! ## emphasis as it is painted: `parse_styles`, `Config`, `update_diff_style_sections`

`infer_edits` annotates sections with *styles*; what makes a section "emphasised" on the screen is decided later:
`Painter::update_diff_style_sections` repaints, on every line that has a partner, each section whose style does
not carry the flag `is_emph` with the non-emph style, and `is_emph` is set by `parse_styles()` on the two
within-line styles. The theorems below are about the model `DeltaModel/EmphPaint.lean`, whose statement list
(`parse_styles()`), key tables (`Config`), call sites and branch guards (`update_diff_style_sections`) are
regenerated from the source (`Generated/EmphPaint.lean`). -/

namespace C06
open EmphPaint Generated.EmphPaint

/-- **Every way a style can be supplied.** `supplied` gives, for every key, the option value as
`style_from_str` sees it — a style string or a reference (to another option or to a user-defined name of the
`[delta]` section, `git`), from the command line, the main section, a feature or a default alike. When
`parse_styles()` succeeds, the style of key `k` carries `is_emph` iff `k` is `minus-emph-style` or
`plus-emph-style`, and what it looks like is what the chain of references from `k` ends in. -/
theorem emph_flag_every_supply (supplied : List (String × Supplied)) (git : String → Option Nat)
    (styles : Resolved) (h : parseStyles supplied git = .ok styles) (k : String) (s : PStyle)
    (hk : styles.lookup k = some s) :
    s.isEmph = (k == "minus-emph-style" || k == "plus-emph-style") ∧
    ∃ s0, follow (edgesOf supplied) git (keysOf (edgesOf supplied)) k = .ok s0 ∧ s.look = s0.look :=
  parseStyles_flag supplied git styles h k s hk

/-- `parse_styles()` does not panic: when the references resolve (no cycle, every user-defined name found) and
the two within-line keys are in the map, both `unwrap_or_else(panic)` find their entry. -/
theorem emph_flag_no_panic (supplied : List (String × Supplied)) (git : String → Option Nat) (r0 : Resolved)
    (hr : resolve (edgesOf supplied) git = .ok r0)
    (h1 : "minus-emph-style" ∈ keysOf (edgesOf supplied)) (h2 : "plus-emph-style" ∈ keysOf (edgesOf supplied)) :
    ∃ styles, parseStyles supplied git = .ok styles := by
  have hp : AllPlain (edgesOf supplied) := allPlain_makeAll supplied _ [] allPlain_nil
  have hkeys := (resolve_spec _ git hp r0 hr).1
  have key : ∀ k, k ∈ keysOf (edgesOf supplied) → (r0.lookup k).isSome = true := by
    intro k hk
    rw [← hkeys] at hk
    obtain ⟨e, he, rfl⟩ := List.mem_map.mp hk
    exact lookup_isSome_of_mem r0 e.1 e.2 he
  exact ⟨_, parseStyles_ok supplied git r0 hr (key _ h1) (key _ h2)⟩

/-- The resolution loop of the model never runs out of fuel (a reference chain either ends or revisits a key,
which is delta's "Your delta styles form a cycle"). -/
theorem resolution_fuel_suffices (edges : StyleMap) (git : String → Option Nat) (unvisited : List String)
    (node : String) : follow edges git unvisited node ≠ .error "model: out of fuel" :=
  follow_never_out_of_fuel edges git unvisited node

private def supRef : List (String × Supplied) :=
  [("minus-style", .direct 1), ("minus-emph-style", .ref "removed-word-style"), ("minus-non-emph-style", .ref "minus-style"),
   ("plus-style", .direct 4), ("plus-emph-style", .ref "inline-hint-style"), ("plus-non-emph-style", .direct 6),
   ("zero-style", .direct 7), ("whitespace-error-style", .direct 9), ("inline-hint-style", .ref "added-word-style")]
private def gitRef : String → Option Nat := fun k =>
  if k = "removed-word-style" then some 124 else if k = "added-word-style" then some 28 else none

-- a reference to a user-defined name, and a chain option -> option -> user-defined name: the flag is set, the
-- look is the referent's; the referent itself (`inline-hint-style`) does not get the flag
example : (parseStyles supRef gitRef).map (fun r => (r.lookup "minus-emph-style", r.lookup "plus-emph-style",
      r.lookup "minus-non-emph-style", r.lookup "inline-hint-style")) =
    .ok (some ⟨124, true⟩, some ⟨28, true⟩, some ⟨1, false⟩, some ⟨28, false⟩) := by rfl
example : "minus-emph-style" ∈ keysOf (edgesOf supRef) ∧ "plus-emph-style" ∈ keysOf (edgesOf supRef) := by decide
-- a cycle is delta's fatal error, not a panic and not a style
example : parseStyles [("minus-emph-style", .ref "plus-emph-style"), ("plus-emph-style", .ref "minus-emph-style")]
    (fun _ => none) = .error "fatal: Your delta styles form a cycle" := by rfl

/-- **The substitution rule.** `update_diff_style_sections` cannot panic, keeps the number of sections and
their texts, and paints the section at any place of the line by `paintRule`: a section with `is_emph` keeps its
style (unless it lies in the trailing whitespace of an added line: whitespace-error style), a section without
it gets the non-emph style when one is given and the line has a partner. -/
theorem painted_section_rule (ws ne : Option PStyle) (homolog : Bool) (pre : List PSec) (s : PSec) (post : List PSec) :
    ∃ opre o opost, updateLine ws ne homolog (pre ++ s :: post) = .ok (opre ++ o :: opost) ∧
      opre.length = pre.length ∧ opost.length = post.length ∧ o.blank = s.blank ∧
      paintRule ws ne (shouldUpdateNonEmph ne.isSome homolog) (moreThanOneStyle (pre ++ s :: post))
        (wsErrInitial ws.isSome && post.all (·.blank) && s.blank) s = some o.style := by
  obtain ⟨out, ho⟩ := updateLine_total ws ne homolog (pre ++ s :: post)
  obtain ⟨opre, o, opost, rfl, h1, h2, h3, h4⟩ := updateLine_at ws ne homolog pre s post out ho
  exact ⟨opre, o, opost, ho, h1, h2, h3, h4⟩

/-- Removed lines (no whitespace-error style): a section is painted with `is_emph` iff it was annotated with it,
such a section keeps its style, and the others get the non-emph style exactly when the line has a partner and a
non-emph style is given. -/
theorem painted_emphasis_minus (ne : Option PStyle) (hne : ∀ n, ne = some n → n.isEmph = false) (homolog : Bool)
    (pre : List PSec) (s : PSec) (post : List PSec) :
    ∃ opre o opost, updateLine none ne homolog (pre ++ s :: post) = .ok (opre ++ o :: opost) ∧
      opre.length = pre.length ∧ opost.length = post.length ∧
      o.style.isEmph = s.style.isEmph ∧ (s.style.isEmph = true → o.style = s.style) ∧
      (s.style.isEmph = false → o.style = if homolog then ne.getD s.style else s.style) := by
  obtain ⟨opre, o, opost, ho, h1, h2, _, h4⟩ := painted_section_rule none ne homolog pre s post
  refine ⟨opre, o, opost, ho, h1, h2, ?_⟩
  unfold paintRule at h4
  cases he : s.style.isEmph <;> cases homolog <;> cases ne <;>
    simp_all [wsErrInitial, shouldUpdateNonEmph]

/-- Added lines: emphasis is never invented, an emphasised section keeps its style, and an annotated section
is painted without `is_emph` only in the trailing whitespace of the line (it and every later section blank),
where it gets the whitespace-error style. -/
theorem painted_emphasis_plus (w : PStyle) (hw : w.isEmph = false) (ne : Option PStyle)
    (hne : ∀ n, ne = some n → n.isEmph = false) (homolog : Bool) (pre : List PSec) (s : PSec) (post : List PSec) :
    ∃ opre o opost, updateLine (some w) ne homolog (pre ++ s :: post) = .ok (opre ++ o :: opost) ∧
      opre.length = pre.length ∧ opost.length = post.length ∧
      (o.style.isEmph = true → s.style.isEmph = true ∧ o.style = s.style) ∧
      (s.style.isEmph = true → o.style = s.style ∨
        (o.style = w ∧ s.blank = true ∧ post.all (·.blank) = true)) := by
  obtain ⟨opre, o, opost, ho, h1, h2, _, h4⟩ := painted_section_rule (some w) ne homolog pre s post
  refine ⟨opre, o, opost, ho, h1, h2, ?_⟩
  obtain ⟨r1, r2⟩ := paintRule_emph _ _ _ _ _ _ _ (by intro w' hw'; injection hw' with hw'; subst hw'; exact hw) hne h4
  refine ⟨r1, fun he => ?_⟩
  rcases r2 he with r | ⟨r, rw'⟩
  · exact .inl r
  · injection rw' with rw'
    simp only [Bool.and_eq_true] at r
    exact .inr ⟨rw'.symm, r.2, r.1.2⟩

-- a paired added line `keep CHANGED keep <trailing blank CHANGED>`: styles 4 (plus), 5 (emph), non-emph 6, whitespace error 9
example : updateLine (some ⟨9, false⟩) (some ⟨6, false⟩) true
    [⟨⟨4, false⟩, false⟩, ⟨⟨5, true⟩, false⟩, ⟨⟨4, false⟩, false⟩, ⟨⟨5, true⟩, true⟩] =
    .ok [⟨⟨6, false⟩, false⟩, ⟨⟨5, true⟩, false⟩, ⟨⟨6, false⟩, false⟩, ⟨⟨9, false⟩, true⟩] := by rfl
-- the same sections on a line without partner: nothing is substituted (the whitespace error is still marked)
example : updateLine (some ⟨9, false⟩) (some ⟨6, false⟩) false
    [⟨⟨4, false⟩, false⟩, ⟨⟨5, true⟩, false⟩, ⟨⟨4, false⟩, false⟩, ⟨⟨5, true⟩, true⟩] =
    .ok [⟨⟨4, false⟩, false⟩, ⟨⟨5, true⟩, false⟩, ⟨⟨4, false⟩, false⟩, ⟨⟨9, false⟩, true⟩] := by rfl

/-- **From the options to the screen.** For every way the styles are supplied (`supplied`, `git`) on which
delta starts, for a removed or an added line, with or without partner, annotated by `infer_edits` into
sections (`(changed?, blank?)` per section): the section at any place of the painted line carries `is_emph`
only if it was annotated as changed, and a section annotated as changed is painted with the resolved
within-line style of its side (which carries the flag) — except in the trailing whitespace of an added line.
So the emphasised ranges displayed are exactly the annotated ones, give or take trailing whitespace. -/
theorem emphasis_exact_every_supply (supplied : List (String × Supplied)) (git : String → Option Nat) (side : Side)
    (homolog : Bool) (pre : List (Bool × Bool)) (e b : Bool) (post : List (Bool × Bool)) (out : List PSec)
    (h : paintedLine supplied git side homolog (pre ++ (e, b) :: post) = .ok out) :
    ∃ styles es opre o opost, parseStyles supplied git = .ok styles ∧
      cfgField styles (emphField side) = .ok es ∧ es.isEmph = true ∧
      out = opre ++ o :: opost ∧ opre.length = pre.length ∧ opost.length = post.length ∧
      (o.style.isEmph = true → e = true ∧ o.style = es) ∧
      (e = true → o.style = es ∨ (side = .plus ∧ b = true ∧ post.all (·.2) = true)) := by
  unfold paintedLine at h
  split at h
  · cases h
  · rename_i styles hs
    split at h
    · cases h
    · rename_i c hc
      split at h
      · cases h
      · rename_i ls hls
        split at h
        · cases h
        · rename_i es hes
          split at h
          · cases h
          · rename_i ws hws
            split at h
            · cases h
            · rename_i ne hne
              -- flags of the four styles involved
              have hesE : es.isEmph = true := by
                obtain ⟨key, hk, he⟩ := cfgField_flag supplied git styles hs _ es hes
                have := emphField_key side
                rw [hk] at this
                simpa [he] using this
              have hlsE : ls.isEmph = false := by
                obtain ⟨key, hk, he⟩ := cfgField_flag supplied git styles hs _ ls hls
                have := lineField_key side
                rw [hk] at this
                simpa [he] using this
              have hcm : c ∈ updateCalls := List.mem_of_find?_eq_some hc
              have hcp := List.all_eq_true.mp updateCalls_plain c hcm
              simp only [Bool.and_eq_true] at hcp
              have hneE : ∀ n, ne = some n → n.isEmph = false := fun n hn =>
                plain_of_field supplied git styles hs _ n hcp.1 (neArg_spec styles c ne hne n hn)
              have hwsE : ∀ w, ws = some w → w.isEmph = false := by
                intro w hw
                obtain ⟨f, hf, hfw⟩ := (wsArg_spec styles c ws hws).2 w hw
                rw [hf] at hcp
                exact plain_of_field supplied git styles hs f w (by simpa using hcp.2) hfw
              have hwsM : side = .minus → ws = none := by
                intro hsd
                subst hsd
                have := minus_call_ws
                rw [hc] at this
                exact (wsArg_spec styles c ws hws).1 (by simpa using this)
              rw [List.map_append, List.map_cons] at h
              obtain ⟨opre, o, opost, rfl, h1, h2, h3, h4⟩ := updateLine_at ws ne homolog _ _ _ out h
              refine ⟨styles, es, opre, o, opost, hs, hes, hesE, rfl, by simpa using h1, by simpa using h2, ?_⟩
              obtain ⟨r1, r2⟩ := paintRule_emph _ _ _ _ _ _ _ hwsE hneE h4
              simp only at r1 r2
              constructor
              · intro ho
                obtain ⟨q1, q2⟩ := r1 ho
                cases e
                · simp [hlsE] at q1
                · exact ⟨rfl, by simpa using q2⟩
              · intro he
                subst he
                rcases r2 (by simpa using hesE) with r | ⟨r, rw'⟩
                · exact .inl (by simpa using r)
                · right
                  simp only [Bool.and_eq_true, List.all_map] at r
                  refine ⟨?_, r.2, ?_⟩
                  · cases side with
                    | plus => rfl
                    | minus =>
                      have := hwsM rfl
                      subst this
                      cases rw'
                  · have := r.1.2
                    simpa [Function.comp_def] using this

-- the within-line styles given as references (`supRef`): a paired removed line `keep CHANGED keep` and a paired
-- added line `keep CHANGED <trailing blank>` are painted non-emph (1: `minus-non-emph-style = minus-style`; 6) /
-- emphasised with the referents' looks (124; 28) / whitespace-error (9)
example : paintedLine supRef gitRef .minus true [(false, false), (true, false), (false, false)] =
    .ok [⟨⟨1, false⟩, false⟩, ⟨⟨124, true⟩, false⟩, ⟨⟨1, false⟩, false⟩] := by rfl
example : paintedLine supRef gitRef .plus true [(false, false), (true, false), (false, true)] =
    .ok [⟨⟨6, false⟩, false⟩, ⟨⟨28, true⟩, false⟩, ⟨⟨9, false⟩, true⟩] := by rfl

end C06

/-! ## from the configured option value to the pairing test: `Config::from`, `get_diff_style_sections`

`infer_edits` is given its two thresholds by its only caller, `get_diff_style_sections` (src/paint.rs), which reads
them from `Config`; `Config::from` computes them from `--max-line-distance` and from the environment variable
`DELTA_EXPERIMENTAL_MAX_LINE_DISTANCE_FOR_NAIVELY_PAIRED_LINES`. The argument expressions of the call and the field
expressions of `Config::from` are regenerated from the source as expression trees
(`Generated/PairThresholds.lean`) and interpreted by `DeltaModel/PairThresholds.lean` (thresholds as rationals).
`inferEditsConfigured inp …` is `infer_edits` as a run of delta started with `inp` calls it. -/

namespace C06
open Align Edits Generated.Align PairThresholds Generated.PairThresholds

/-- **The caller passes the thresholds unchanged.** Whatever the option value and the state of the environment
variable: `infer_edits` is called with exactly the configured maximum distance, and with the value of the
environment variable (0 when it is unset or does not parse) as the naive-pairing threshold — no tolerance, no
scaling, no clamping on the way (`Opt` → `Config::from` → `get_diff_style_sections`). -/
theorem caller_passes_thresholds_unchanged (inp : Inputs) :
    effective inp = some (inp.maxLineDistance, naiveOf inp.naiveEnv) :=
  effective_eq inp

/-- The same as a statement about the `Cfg` of the `infer_edits` model: it carries the configured values, and it
exists for every non-negative option value. -/
theorem configured_thresholds_reach_pairing_test (inp : Inputs) (del ins : Edits.Tag) :
    (∀ cfg, configuredCfg inp del ins = .ok cfg →
      cfg.del = del ∧ cfg.ins = ins ∧
      (cfg.maxNum : Int) = inp.maxLineDistance.num ∧ cfg.maxDen = inp.maxLineDistance.den ∧
      (cfg.naiveNum : Int) = (naiveOf inp.naiveEnv).num ∧ cfg.naiveDen = (naiveOf inp.naiveEnv).den) ∧
    (0 ≤ inp.maxLineDistance.num → 0 ≤ (naiveOf inp.naiveEnv).num → ∃ cfg, configuredCfg inp del ins = .ok cfg) :=
  ⟨fun cfg h => configuredCfg_spec inp del ins cfg h, configuredCfg_total inp del ins⟩

-- `--max-line-distance 0.6`, variable unset / set to `0.25` / set to something that is no number
example : effective ⟨⟨6, 10⟩, .unset⟩ = some (⟨6, 10⟩, ⟨0, 1⟩) := by rfl
example : effective ⟨⟨6, 10⟩, .value ⟨25, 100⟩⟩ = some (⟨6, 10⟩, ⟨25, 100⟩) := by rfl
example : effective ⟨⟨0, 1⟩, .unparseable⟩ = some (⟨0, 1⟩, ⟨0, 1⟩) := by rfl

private theorem configured_run (inp : Inputs) (del ins : Edits.Tag) (minus plus : List Line) (nd ni : List Tag)
    (r : Inferred) (h : inferEditsConfigured inp del ins minus plus nd ni = .ok r) :
    ∃ cfg, configuredCfg inp del ins = .ok cfg ∧ inferEdits cfg minus plus nd ni = .ok r := by
  unfold inferEditsConfigured at h
  split at h
  · cases h
  · rename_i cfg hc
    exact ⟨cfg, hc, h⟩

/-- **Pairing honours the configured maximum distance, end to end.** In a run of delta started with the option
value `inp.maxLineDistance`, two lines that are paired passed the test with that very value: their distance
`numer / denom` is at most the configured maximum — or, in a subhunk with as many removed as added lines, at most
the value of the environment variable. For all lines. -/
theorem configured_distance_is_honoured_e2e (inp : Inputs) (del ins : Edits.Tag) (minus plus : List Line)
    (nd ni : List Tag) (r : Inferred) (h : inferEditsConfigured inp del ins minus plus nd ni = .ok r)
    (i j : Nat) (hij : (some i, some j) ∈ r.alignment) :
    ∃ ml pl tnd tni a, minus[i]? = some ml ∧ plus[j]? = some pl ∧
      annotatePair ⟨tnd, del, tni, ins⟩ ml pl = .ok a ∧
      r.minus[i]? = some a.minus ∧ r.plus[j]? = some a.plus ∧
      (withinQ false a.numer a.denom inp.maxLineDistance = true ∨
        (minus.length = plus.length ∧ withinQ false a.numer a.denom (naiveOf inp.naiveEnv) = true)) := by
  obtain ⟨cfg, hc, hr⟩ := configured_run inp del ins minus plus nd ni r h
  obtain ⟨hdel, hins, hmn, hmd, hnn, hnd'⟩ := configuredCfg_spec inp del ins cfg hc
  obtain ⟨ml, pl, tnd, tni, a, h1, h2, h3, h4, h5, h6, h7, h8⟩ :=
    paired_is_annotate cfg minus plus nd ni r hr i j hij
  rw [hdel, hins] at h5
  refine ⟨ml, pl, tnd, tni, a, h1, h2, h5, h6, h7, ?_⟩
  have hs1 : maxTestStrict = false := by decide
  have hs2 : naiveTestStrict = false := by decide
  unfold isHomologousPair at h8
  rw [hs1, hs2] at h8
  rw [withinQ_eq false _ _ inp.maxLineDistance cfg.maxNum hmn,
    withinQ_eq false _ _ (naiveOf inp.naiveEnv) cfg.naiveNum hnn, ← hmd, ← hnd']
  simp only [Bool.or_eq_true, Bool.and_eq_true, decide_eq_true_eq] at h8
  rcases h8 with ⟨hl, hw⟩ | hw
  · exact .inr ⟨hl, hw⟩
  · exact .inl hw

/-- **With the maximum set to 0 only lines that differ in nothing but whitespace are paired — from the option to
the pairing decision.** In a run of delta started with `--max-line-distance 0` (any spelling of zero; the
environment variable unset, unparseable or zero), for all lines: every emphasised section of the removed line of a
pair is blank after trimming, and so is every emphasised section of the added line (under `WsCons`, as in
`pairing_distance_zero`). -/
theorem distance_zero_pairs_only_whitespace_differences_e2e (inp : Inputs) (del ins : Edits.Tag)
    (h0 : inp.maxLineDistance.num = 0) (hd : 0 < inp.maxLineDistance.den)
    (hn0 : (naiveOf inp.naiveEnv).num = 0) (hnd0 : 0 < (naiveOf inp.naiveEnv).den)
    (minus plus : List Line) (nd ni : List Tag) (r : Inferred)
    (hnd : ∀ tag ∈ nd, tag ≠ del) (hni : ∀ tag ∈ ni, tag ≠ ins)
    (h : inferEditsConfigured inp del ins minus plus nd ni = .ok r)
    (i j : Nat) (hij : (some i, some j) ∈ r.alignment) :
    ∃ secsM secsP, r.minus[i]? = some secsM ∧ r.plus[j]? = some secsP ∧
      (∀ s ∈ secsM, s.tag = del → trim s.gs = []) ∧
      ((∀ x y ml pl, minus[i]? = some ml → plus[j]? = some pl → tokenize ml.gs ml.spans = .ok x →
          tokenize pl.gs pl.spans = .ok y → WsCons x y) →
        ∀ s ∈ secsP, s.tag = ins → trim s.gs = []) := by
  obtain ⟨cfg, hc, hr⟩ := configured_run inp del ins minus plus nd ni r h
  obtain ⟨hdel, hins, hmn, hmd, hnn, hnd'⟩ := configuredCfg_spec inp del ins cfg hc
  have hmax : cfg.maxNum = 0 := by omega
  have hnaive : cfg.naiveNum = 0 := by omega
  obtain ⟨secsM, secsP, hm, hp, h1, h2⟩ :=
    pairing_distance_zero cfg minus plus nd ni r hmax hnaive (by omega) (by omega)
      (by rw [hdel]; exact hnd) (by rw [hins]; exact hni) hr i j hij
  refine ⟨secsM, secsP, hm, hp, ?_, ?_⟩
  · intro s hs htag
    exact (h1 s hs (by rw [hdel]; exact htag)).2 (by decide)
  · intro hw s hs htag
    exact (h2 hw s hs (by rw [hins]; exact htag)).2 (by decide)

/-- **With the maximum set to 1 (or more) pairs are positional — from the option to the pairing decision.** -/
theorem distance_one_positional_e2e (inp : Inputs) (del ins : Edits.Tag)
    (hd : 0 < inp.maxLineDistance.den) (h1 : (inp.maxLineDistance.den : Int) ≤ inp.maxLineDistance.num)
    (minus plus : List Line) (nd ni : List Tag) (r : Inferred)
    (h : inferEditsConfigured inp del ins minus plus nd ni = .ok r) :
    (∀ i j, (some i, some j) ∈ r.alignment → i = j) ∧
    (∀ i, i < min minus.length plus.length → (some i, some i) ∈ r.alignment) := by
  obtain ⟨cfg, hc, hr⟩ := configured_run inp del ins minus plus nd ni r h
  obtain ⟨_, _, hmn, hmd, _, _⟩ := configuredCfg_spec inp del ins cfg hc
  exact pairing_distance_one cfg minus plus nd ni r (by omega) (by omega) hr

-- `--max-line-distance 0`, environment variable unset: a whitespace-only difference is paired, a one-token
-- difference is not (the hypotheses of `distance_zero_pairs_only_whitespace_differences_e2e` on concrete lines)
example : (inferEditsConfigured ⟨⟨0, 1⟩, .unset⟩ 1 3 [lineAB] [lineA__B] [0] [2]).map (·.alignment)
    = .ok [(some 0, some 0)] := by rfl
example : (inferEditsConfigured ⟨⟨0, 1⟩, .unset⟩ 1 3 [lineAB] [lineAA] [0] [2]).map (·.alignment)
    = .ok [(some 0, none), (none, some 0)] := by rfl
-- `--max-line-distance 0.6`: distance 2/4 is within, the lines are paired
example : (inferEditsConfigured ⟨⟨6, 10⟩, .unset⟩ 1 3 [lineAB] [lineAA] [0] [2]).map (·.alignment)
    = .ok [(some 0, some 0)] := by rfl
-- a negative maximum is outside the model
example : (inferEditsConfigured ⟨⟨-1, 10⟩, .unset⟩ 1 3 [lineAB] [lineAA] [0] [2]).map (·.alignment)
    = .error "outside the model: negative threshold" := by rfl

end C06
