import DeltaModel.Edits
namespace C06
theorem placeholder : True := trivial
end C06
