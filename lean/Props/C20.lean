import DeltaModel.Caller
import DeltaModel.Generated.CallerShape
import Proofs.Caller
import Proofs.CallerMeasure
import Proofs.CallerGates
/-!
C20 — calling-process detection gives the same answer under every thread schedule.

Model: `DeltaModel/Caller.lean` (labelled transition system of the CALLER mutex/condvar
protocol of `src/utils/process.rs`, atomic at statement granularity). A schedule is an
arbitrary `List Choice`; `run cfg (init cfg) cs = some s` says the schedule is executable
(every chosen step enabled) and ends in `s`. All theorems quantify over ALL schedules,
including spurious wake-ups, all guesses, all published values and any number of queries.
-/
namespace C20
open Caller

/-! ### Tie to the source: the extracted statement order is the one the model executes -/

/-- Background closure: compute; lock; load flag (inside the lock); conditional store;
notify_all; unlock — as extracted from process.rs by tools/extractors/caller.py. -/
theorem shape_background : Generated.CallerShape.threadClosure = bgShape := by decide

/-- `set_calling_process`: lock; store value; store KNOWN; notify_all; unlock. -/
theorem shape_publication : Generated.CallerShape.setCallingProcess = pubShape := by decide

/-- `calling_process()`: lock; wait in a loop while Pending; hand out the guard. -/
theorem shape_query : Generated.CallerShape.query = queryShape := by decide

/-- Initial statics (`Pending`, `CALLER_GUESSED`) and `GUESSED < KNOWN` (the test is `<=`). -/
theorem shape_initial :
    Generated.CallerShape.initialCell = "Pending" ∧
    Generated.CallerShape.initialSource = "CALLER_GUESSED" ∧
    Generated.CallerShape.callerGuessed < Generated.CallerShape.callerKnown ∧
    (init ⟨0, none, 0⟩).cell = Cell.pending ∧ (init ⟨0, none, 0⟩).src = Src.guessed := by
  decide

/-- Start-up order across `main.rs` when delta launches the command itself: the thread is
started in `main`; in `run_app` the publication (`set_calling_process`) precedes every call
that can query (`Config::from`, whose `is_word_diff` query is cached for the whole process,
`show_config`, `delta`). This is the order of the model's main thread (publication first, then
all queries). -/
theorem startup_publication_precedes_first_query :
    Generated.CallerShape.startupSubcommand = startupShape := by decide

/-! ### The property -/

/-- A completed query never returns `Pending`, under any schedule. -/
theorem query_never_pending (cfg : Cfg) (cs : List Choice) (s : State)
    (h : run cfg (init cfg) cs = some s) : Cell.pending ∉ s.results := by
  intro hm
  exact ((inv_run (inv_init cfg) h).results _ hm).1 rfl

/-- If the main thread publishes a known command `k` (delta launched it itself), every
query returns `k`, in every interleaving: the background guess never overwrites it. -/
theorem known_wins (cfg : Cfg) (k : Nat) (hk : cfg.known = some k) (cs : List Choice) (s : State)
    (h : run cfg (init cfg) cs = some s) : ∀ r ∈ s.results, r = Cell.val k := by
  intro r hr
  exact ((inv_run (inv_init cfg) h).results r hr).2.1 k hk

/-- Without a publication every query returns the background thread's guess. -/
theorem guess_otherwise (cfg : Cfg) (hk : cfg.known = none) (cs : List Choice) (s : State)
    (h : run cfg (init cfg) cs = some s) : ∀ r ∈ s.results, r = Cell.val cfg.guess := by
  intro r hr
  exact ((inv_run (inv_init cfg) h).results r hr).2.2 hk

/-- `known_wins` for the whole start-up sequence of subcommand mode (`delta git …`,
`delta rg …`): the main thread's program as extracted from `main.rs` is the model's
(publication before the first query), and in that program every query — from the one made while
the configuration is built to the last one of input processing — is answered with the launched
command, under every schedule. -/
theorem startup_known_wins (cfg : Cfg) (k : Nat) (hk : cfg.known = some k) (cs : List Choice)
    (s : State) (h : run cfg (init cfg) cs = some s) :
    Generated.CallerShape.startupSubcommand = startupShape ∧
    (init cfg).mpc = MPc.pubLock ∧ ∀ r ∈ s.results, r = Cell.val k :=
  ⟨startup_publication_precedes_first_query, by simp [init, hk], known_wins cfg k hk cs s h⟩

/-- No deadlock: in every reachable state in which some thread has not finished, a step
other than a spurious wake-up is enabled (so progress never depends on spurious wake-ups;
in particular a sleeping query always still has the background `notify_all` ahead of it). -/
theorem no_deadlock (cfg : Cfg) (s : State) (hr : Reachable cfg s) (hf : final s = false) :
    ∃ c, c ≠ Choice.spurious ∧ (step cfg s c).isSome = true :=
  progress (inv_reachable hr) hf

/-- Termination measure: every step other than a spurious wake-up strictly decreases
`measure`; a spurious wake-up raises it by at most 3. -/
theorem bounded_steps (cfg : Cfg) (s s' : State) (c : Choice) (hr : Reachable cfg s)
    (hs : step cfg s c = some s') :
    (c ≠ Choice.spurious → Caller.measure s' < Caller.measure s) ∧
    (c = Choice.spurious → Caller.measure s' ≤ Caller.measure s + 3) := by
  refine ⟨fun hc => measure_step (inv_reachable hr) hc hs, fun hc => ?_⟩
  subst hc
  exact measure_stepSpurious (by simpa [step] using hs)

/-- Hence every executable schedule is short: at most `8·queries + 19` steps plus 4 per
spurious wake-up. With `no_deadlock`: no query blocks forever. -/
theorem schedule_length_bounded (cfg : Cfg) (cs : List Choice) (s : State)
    (h : run cfg (init cfg) cs = some s) :
    cs.length ≤ 8 * cfg.queries + 19 + 4 * countSpurious cs := by
  have h1 := run_length (inv_init cfg) h
  have h2 : Caller.measure (init cfg) ≤ 8 * cfg.queries + 19 := by
    obtain ⟨g, k, q⟩ := cfg
    cases k <;> by_cases hq : q = 0 <;> simp [Caller.measure, mrank, brank, init, queryStart, hq] <;> omega
  omega

/-- When both threads have finished, the mutex is free and nobody is left waiting. -/
theorem unlocked_at_end (cfg : Cfg) (cs : List Choice) (s : State)
    (h : run cfg (init cfg) cs = some s) (hf : final s = true) :
    s.owner = none ∧ s.waiters = [] := by
  have inv := inv_run (inv_init cfg) h
  simp only [final, Bool.and_eq_true, beq_iff_eq] at hf
  obtain ⟨hb, hm⟩ := hf
  have h1 := inv.ownBg
  have h2 := inv.ownMain
  have h3 := inv.waitSet
  rw [hb] at h1
  rw [hm] at h2 h3
  simp [BPc.holds, MPc.holds] at h1 h2 h3
  refine ⟨?_, h3⟩
  rcases ho : s.owner with _ | _ | _ <;> simp_all

/-! ### Concrete schedules: the hypotheses are satisfiable and the runs are non-trivial -/

/-- `delta rg …` with a different guess; the background thread runs between the publication
and two queries. -/
def cfgKnown : Cfg := ⟨1, some 2, 2⟩
/-- Piped input: no publication, two queries. -/
def cfgGuess : Cfg := ⟨1, none, 2⟩

open Choice in
/-- Main publishes, the background thread finds `KNOWN` and skips its store, two queries. -/
def schedKnown : List Choice :=
  [main, bg, main, main, main, main, bg, bg, bg, bg, main, main, main, main, main, main, main, main]

open Choice in
/-- The first query goes to sleep, is woken spuriously, sleeps again, then the background
thread stores its guess and notifies. -/
def schedGuessWait : List Choice :=
  [main, main, main, spurious, main, main, main, bg, bg, bg, bg, bg, bg, main, main, main, main,
   main, main, main, main]

example : (run cfgKnown (init cfgKnown) schedKnown).map (·.results) =
    some [Cell.val 2, Cell.val 2] := by decide
example : (run cfgKnown (init cfgKnown) schedKnown).map final = some true := by decide
example : (run cfgGuess (init cfgGuess) schedGuessWait).map (·.results) =
    some [Cell.val 1, Cell.val 1] := by decide
example : (run cfgGuess (init cfgGuess) schedGuessWait).map final = some true := by decide
example : Reachable cfgGuess ((run cfgGuess (init cfgGuess) (schedGuessWait.take 7)).getD (init cfgGuess)) :=
  ⟨schedGuessWait.take 7, by decide⟩
example : countSpurious schedGuessWait = 1 := by decide

/-! ### The gate schedules forced on the real binary are schedules of the model -/

/-- Whatever the model driver (`drv_caller`, `runGates`) reports for a gate schedule is the
outcome of a statement-level schedule: all theorems above apply to it. In particular its
results are never `Pending`, equal the published command when there is one, and the guess
otherwise. -/
theorem gate_runs_are_schedules (cfg : Cfg) (es : List Gate) (r : GateRun)
    (h : runGates cfg (gateInit cfg) es 0 = .ok r) :
    run cfg (init cfg) r.choices = some r.state ∧
    Cell.pending ∉ r.state.results ∧
    (∀ k, cfg.known = some k → ∀ x ∈ r.state.results, x = Cell.val k) ∧
    (cfg.known = none → ∀ x ∈ r.state.results, x = Cell.val cfg.guess) := by
  have hr : run cfg (init cfg) r.choices = some r.state :=
    runGates_sound (r := gateInit cfg) (by simp [gateInit, run]) h
  exact ⟨hr, query_never_pending cfg _ _ hr, fun k hk => known_wins cfg k hk _ _ hr,
    fun hk => guess_otherwise cfg hk _ _ hr⟩

example : (runGates cfgGuess (gateInit cfgGuess)
    [.qLock 1, .qCheck 1, .bCompute, .bLock, .bLoad, .bStore, .bNotify, .bUnlock,
     .qCheck 1, .qLock 2, .qCheck 2] 0).toOption.map (·.state.results) =
    some [Cell.val 1, Cell.val 1] := by decide

/-! ### The theorems are not vacuous: three variants of the code violate them -/

open Choice in
/-- Variant with the atomic load hoisted before `lock()`: the background thread reads
`GUESSED`, the main thread publishes, the background thread then overwrites the known
command — `known_wins` fails. -/
theorem hoisted_load_violates_known_wins :
    ∃ cs s, runHoisted cfgKnown (init cfgKnown) cs = some s ∧
      ∃ r ∈ s.results, r ≠ Cell.val 2 :=
  ⟨[bg, bg, main, main, main, main, main, bg, bg, bg, bg, main, main, main],
    _, rfl, Cell.val 1, by decide, by decide⟩

open Choice in
/-- Variant without the background `notify_all`: a query that went to sleep before the guess
was stored is never woken; the run is stuck short of completion (only a spurious wake-up
could help) — `no_deadlock` fails. -/
theorem no_notify_deadlocks :
    ∃ cs s, runNoNotify cfgGuess (init cfgGuess) cs = some s ∧ final s = false ∧
      ∀ c, c ≠ Choice.spurious → stepNoNotify cfgGuess s c = none :=
  ⟨[main, main, main, bg, bg, bg, bg, bg, bg], _, rfl, by decide, by
    intro c hc
    cases c
    · decide
    · decide
    · exact absurd rfl hc⟩

open Choice in
/-- Variant with `if` in place of the `wait_while` loop: a spurious wake-up makes the query
return `Pending` — `query_never_pending` fails. -/
theorem if_wait_returns_pending :
    ∃ cs s, runIf cfgGuess (init cfgGuess) cs = some s ∧ Cell.pending ∈ s.results :=
  ⟨[main, main, main, spurious, main, main], _, rfl, by decide⟩

open Choice in
/-- Variant with the publication moved behind the first query (`set_calling_process` after
`Config::from`): the first query waits for the background guess and returns it although delta
launched the command itself — `known_wins` fails for the start-up sequence. -/
theorem late_publication_violates_known_wins :
    ∃ cs s, runLatePub cfgKnown (initLatePub cfgKnown) cs = some s ∧
      ∃ r ∈ s.results, r ≠ Cell.val 2 :=
  ⟨[main, main, main, bg, bg, bg, bg, bg, bg, main, main, main, main,
    main, main, main, main, main, main, main, main, main],
    _, rfl, Cell.val 1, by decide, by decide⟩

end C20
