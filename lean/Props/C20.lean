import DeltaModel.Caller
import DeltaModel.Generated.CallerShape
import Proofs.Caller
import Proofs.CallerMeasure
import Proofs.CallerGates
import DeltaModel.CallerScan
import DeltaModel.Generated.CallerDescribe
import Proofs.CallerScan
import DeltaModel.CallGraph
import DeltaModel.Generated.CallerQueries
import Proofs.CallGraph
/-!
C20 — calling-process detection gives the same answer under every thread schedule.

Model: `DeltaModel/Caller.lean` (labelled transition system of the CALLER mutex/condvar
protocol of `src/utils/process.rs`, atomic at statement granularity). A schedule is an
arbitrary `List Choice`; `run cfg (init cfg) cs = some s` says the schedule is executable
(every chosen step enabled) and ends in `s`. All theorems quantify over ALL schedules,
including spurious wake-ups, all guesses, all published values and any number of queries.

The computation of the background thread (`compute`: the process-table scan with its callback
`describe_calling_process`) is modelled in `DeltaModel/CallerScan.lean`; the last section proves that
it returns for every process table (so the protocol theorems apply unconditionally) and that this is
necessary: with a callback that can panic some schedule leaves the first query waiting for ever.
-/
namespace C20
open Caller

/-! ### Tie to the source: the extracted statement order is the one the model executes -/

/-- Background closure: compute; lock; load flag (inside the lock); conditional store;
notify_all; unlock — as extracted from process.rs by tools/extractors/caller.py. -/
theorem shape_background : Generated.CallerShape.threadClosure = bgShape := by decide

/-- `set_calling_process`: lock; store value; store KNOWN; notify_all; unlock. -/
theorem shape_publication : Generated.CallerShape.setCallingProcess = pubShape := by decide

/-- `calling_process()`: lock; wait in a loop while Pending; hand out the guard. -/
theorem shape_query : Generated.CallerShape.query = queryShape := by decide

/-- Initial statics (`Pending`, `CALLER_GUESSED`) and `GUESSED < KNOWN` (the test is `<=`). -/
theorem shape_initial :
    Generated.CallerShape.initialCell = "Pending" ∧
    Generated.CallerShape.initialSource = "CALLER_GUESSED" ∧
    Generated.CallerShape.callerGuessed < Generated.CallerShape.callerKnown ∧
    (init ⟨0, none, 0⟩).cell = Cell.pending ∧ (init ⟨0, none, 0⟩).src = Src.guessed := by
  decide

/-- Start-up order across `main.rs` when delta launches the command itself: the thread is
started in `main`; in `run_app` the publication (`set_calling_process`) precedes every call
that can query (`Config::from`, whose `is_word_diff` query is cached for the whole process,
`show_config`, `delta`). This is the order of the model's main thread (publication first, then
all queries). -/
theorem startup_publication_precedes_first_query :
    Generated.CallerShape.startupSubcommand = startupShape := by decide

/-! ### The property -/

/-- A completed query never returns `Pending`, under any schedule. -/
theorem query_never_pending (cfg : Cfg) (cs : List Choice) (s : State)
    (h : run cfg (init cfg) cs = some s) : Cell.pending ∉ s.results := by
  intro hm
  exact ((inv_run (inv_init cfg) h).results _ hm).1 rfl

/-- If the main thread publishes a known command `k` (delta launched it itself), every
query returns `k`, in every interleaving: the background guess never overwrites it. -/
theorem known_wins (cfg : Cfg) (k : Nat) (hk : cfg.known = some k) (cs : List Choice) (s : State)
    (h : run cfg (init cfg) cs = some s) : ∀ r ∈ s.results, r = Cell.val k := by
  intro r hr
  exact ((inv_run (inv_init cfg) h).results r hr).2.1 k hk

/-- Without a publication every query returns the background thread's guess. -/
theorem guess_otherwise (cfg : Cfg) (hk : cfg.known = none) (cs : List Choice) (s : State)
    (h : run cfg (init cfg) cs = some s) : ∀ r ∈ s.results, r = Cell.val cfg.guess := by
  intro r hr
  exact ((inv_run (inv_init cfg) h).results r hr).2.2 hk

/-- `known_wins` for the whole start-up sequence of subcommand mode (`delta git …`,
`delta rg …`): the main thread's program as extracted from `main.rs` is the model's
(publication before the first query), and in that program every query — from the one made while
the configuration is built to the last one of input processing — is answered with the launched
command, under every schedule. -/
theorem startup_known_wins (cfg : Cfg) (k : Nat) (hk : cfg.known = some k) (cs : List Choice)
    (s : State) (h : run cfg (init cfg) cs = some s) :
    Generated.CallerShape.startupSubcommand = startupShape ∧
    (init cfg).mpc = MPc.pubLock ∧ ∀ r ∈ s.results, r = Cell.val k :=
  ⟨startup_publication_precedes_first_query, by simp [init, hk], known_wins cfg k hk cs s h⟩

/-- No deadlock: in every reachable state in which some thread has not finished, a step
other than a spurious wake-up is enabled (so progress never depends on spurious wake-ups;
in particular a sleeping query always still has the background `notify_all` ahead of it). -/
theorem no_deadlock (cfg : Cfg) (s : State) (hr : Reachable cfg s) (hf : final s = false) :
    ∃ c, c ≠ Choice.spurious ∧ (step cfg s c).isSome = true :=
  progress (inv_reachable hr) hf

/-- Termination measure: every step other than a spurious wake-up strictly decreases
`measure`; a spurious wake-up raises it by at most 3. -/
theorem bounded_steps (cfg : Cfg) (s s' : State) (c : Choice) (hr : Reachable cfg s)
    (hs : step cfg s c = some s') :
    (c ≠ Choice.spurious → Caller.measure s' < Caller.measure s) ∧
    (c = Choice.spurious → Caller.measure s' ≤ Caller.measure s + 3) := by
  refine ⟨fun hc => measure_step (inv_reachable hr) hc hs, fun hc => ?_⟩
  subst hc
  exact measure_stepSpurious (by simpa [step] using hs)

/-- Hence every executable schedule is short: at most `8·queries + 19` steps plus 4 per
spurious wake-up. With `no_deadlock`: no query blocks forever. -/
theorem schedule_length_bounded (cfg : Cfg) (cs : List Choice) (s : State)
    (h : run cfg (init cfg) cs = some s) :
    cs.length ≤ 8 * cfg.queries + 19 + 4 * countSpurious cs := by
  have h1 := run_length (inv_init cfg) h
  have h2 : Caller.measure (init cfg) ≤ 8 * cfg.queries + 19 := by
    obtain ⟨g, k, q⟩ := cfg
    cases k <;> by_cases hq : q = 0 <;> simp [Caller.measure, mrank, brank, init, queryStart, hq] <;> omega
  omega

/-- When both threads have finished, the mutex is free and nobody is left waiting. -/
theorem unlocked_at_end (cfg : Cfg) (cs : List Choice) (s : State)
    (h : run cfg (init cfg) cs = some s) (hf : final s = true) :
    s.owner = none ∧ s.waiters = [] := by
  have inv := inv_run (inv_init cfg) h
  simp only [final, Bool.and_eq_true, beq_iff_eq] at hf
  obtain ⟨hb, hm⟩ := hf
  have h1 := inv.ownBg
  have h2 := inv.ownMain
  have h3 := inv.waitSet
  rw [hb] at h1
  rw [hm] at h2 h3
  simp [BPc.holds, MPc.holds] at h1 h2 h3
  refine ⟨?_, h3⟩
  rcases ho : s.owner with _ | _ | _ <;> simp_all

/-! ### Concrete schedules: the hypotheses are satisfiable and the runs are non-trivial -/

/-- `delta rg …` with a different guess; the background thread runs between the publication
and two queries. -/
def cfgKnown : Cfg := ⟨1, some 2, 2⟩
/-- Piped input: no publication, two queries. -/
def cfgGuess : Cfg := ⟨1, none, 2⟩

open Choice in
/-- Main publishes, the background thread finds `KNOWN` and skips its store, two queries. -/
def schedKnown : List Choice :=
  [main, bg, main, main, main, main, bg, bg, bg, bg, main, main, main, main, main, main, main, main]

open Choice in
/-- The first query goes to sleep, is woken spuriously, sleeps again, then the background
thread stores its guess and notifies. -/
def schedGuessWait : List Choice :=
  [main, main, main, spurious, main, main, main, bg, bg, bg, bg, bg, bg, main, main, main, main,
   main, main, main, main]

example : (run cfgKnown (init cfgKnown) schedKnown).map (·.results) =
    some [Cell.val 2, Cell.val 2] := by decide
example : (run cfgKnown (init cfgKnown) schedKnown).map final = some true := by decide
example : (run cfgGuess (init cfgGuess) schedGuessWait).map (·.results) =
    some [Cell.val 1, Cell.val 1] := by decide
example : (run cfgGuess (init cfgGuess) schedGuessWait).map final = some true := by decide
example : Reachable cfgGuess ((run cfgGuess (init cfgGuess) (schedGuessWait.take 7)).getD (init cfgGuess)) :=
  ⟨schedGuessWait.take 7, by decide⟩
example : countSpurious schedGuessWait = 1 := by decide

/-! ### The gate schedules forced on the real binary are schedules of the model -/

/-- Whatever the model driver (`drv_caller`, `runGates`) reports for a gate schedule is the
outcome of a statement-level schedule: all theorems above apply to it. In particular its
results are never `Pending`, equal the published command when there is one, and the guess
otherwise. -/
theorem gate_runs_are_schedules (cfg : Cfg) (es : List Gate) (r : GateRun)
    (h : runGates cfg (gateInit cfg) es 0 = .ok r) :
    run cfg (init cfg) r.choices = some r.state ∧
    Cell.pending ∉ r.state.results ∧
    (∀ k, cfg.known = some k → ∀ x ∈ r.state.results, x = Cell.val k) ∧
    (cfg.known = none → ∀ x ∈ r.state.results, x = Cell.val cfg.guess) := by
  have hr : run cfg (init cfg) r.choices = some r.state :=
    runGates_sound (r := gateInit cfg) (by simp [gateInit, run]) h
  exact ⟨hr, query_never_pending cfg _ _ hr, fun k hk => known_wins cfg k hk _ _ hr,
    fun hk => guess_otherwise cfg hk _ _ hr⟩

example : (runGates cfgGuess (gateInit cfgGuess)
    [.qLock 1, .qCheck 1, .bCompute, .bLock, .bLoad, .bStore, .bNotify, .bUnlock,
     .qCheck 1, .qLock 2, .qCheck 2] 0).toOption.map (·.state.results) =
    some [Cell.val 1, Cell.val 1] := by decide

/-! ### The theorems are not vacuous: three variants of the code violate them -/

open Choice in
/-- Variant with the atomic load hoisted before `lock()`: the background thread reads
`GUESSED`, the main thread publishes, the background thread then overwrites the known
command — `known_wins` fails. -/
theorem hoisted_load_violates_known_wins :
    ∃ cs s, runHoisted cfgKnown (init cfgKnown) cs = some s ∧
      ∃ r ∈ s.results, r ≠ Cell.val 2 :=
  ⟨[bg, bg, main, main, main, main, main, bg, bg, bg, bg, main, main, main],
    _, rfl, Cell.val 1, by decide, by decide⟩

open Choice in
/-- Variant without the background `notify_all`: a query that went to sleep before the guess
was stored is never woken; the run is stuck short of completion (only a spurious wake-up
could help) — `no_deadlock` fails. -/
theorem no_notify_deadlocks :
    ∃ cs s, runNoNotify cfgGuess (init cfgGuess) cs = some s ∧ final s = false ∧
      ∀ c, c ≠ Choice.spurious → stepNoNotify cfgGuess s c = none :=
  ⟨[main, main, main, bg, bg, bg, bg, bg, bg], _, rfl, by decide, by
    intro c hc
    cases c
    · decide
    · decide
    · exact absurd rfl hc⟩

open Choice in
/-- Variant with `if` in place of the `wait_while` loop: a spurious wake-up makes the query
return `Pending` — `query_never_pending` fails. -/
theorem if_wait_returns_pending :
    ∃ cs s, runIf cfgGuess (init cfgGuess) cs = some s ∧ Cell.pending ∈ s.results :=
  ⟨[main, main, main, spurious, main, main], _, rfl, by decide⟩

open Choice in
/-- Variant with the publication moved behind the first query (`set_calling_process` after
`Config::from`): the first query waits for the background guess and returns it although delta
launched the command itself — `known_wins` fails for the start-up sequence. -/
theorem late_publication_violates_known_wins :
    ∃ cs s, runLatePub cfgKnown (initLatePub cfgKnown) cs = some s ∧
      ∃ r ∈ s.results, r ≠ Cell.val 2 :=
  ⟨[main, main, main, bg, bg, bg, bg, bg, bg, main, main, main, main,
    main, main, main, main, main, main, main, main, main],
    _, rfl, Cell.val 1, by decide, by decide⟩

/-! ### The background determination always finishes: the scan callback is total

`no_deadlock`, `query_never_pending`, … are about a background thread whose `compute` step
completes. `compute` is `calling_process_cmdline(ProcInfo::new(), describe_calling_process)`; a panic
of the callback on the command line of SOME process of the table kills the thread before it takes
the lock. `CallerScan.describeWith` interprets the shape of `describe_calling_process` extracted from
process.rs on this run (`Generated/CallerDescribe.lean`): indexing / slicing / unwrapping the
argument slice are error branches. -/

open CallerScan

/-- The extracted shape is total: the command and the remaining arguments are taken through an
iterator (no `args[0]`, `args[1..]`, `unwrap`), there is an arm for an empty slice, the arms over the
file stem are recognised and exhaustive, every result is recognised. -/
theorem describe_shape_total : theShape.total = true := by decide

/-- `describe_calling_process` returns for EVERY argument slice — the empty one, one whose first
element has no file stem (`/`, `.`, `..`, empty), any length, any content. -/
theorem describe_total (argv : Argv) : ∃ o, describe argv = .ok o :=
  describeWith_total theShape describe_shape_total argv

/-- The arm "Empty arguments (not expected); keep looking": a process without a command line
(zombie, kernel thread, `argv[0] == ""`) is just another process. -/
theorem describe_empty_command_line : describe [] = .ok .otherProcess := by decide

/-- Every other construct that can panic in the code the background thread runs before its guess is
stored (`describe_calling_process`, `is_git_binary`, `parse_command_line`, `determine_calling_process`,
`calling_process_cmdline`, `parent_process`, `naive_sibling_process`,
`find_sibling_in_refreshed_processes`, `iter_parents`, the closure itself) is one of the idioms
that cannot fire (`CallerScan.totalKinds`). A new `unwrap`, index, slice, `expect`, panic macro or
unsigned subtraction there breaks this theorem. -/
theorem scan_panic_points_total :
    Generated.CallerDescribe.panicPoints.all (fun p => totalKinds.contains p.2.2) = true := by decide

/-- The rest of the extracted scan code is what the model executes: branch order of
`parse_command_line`, steps of `is_git_binary`, depths and arms of the parent loop. -/
theorem shape_scan :
    Generated.CallerDescribe.parseCommandLine = parseShape ∧
    Generated.CallerDescribe.isGitBinary = isGitBinaryShape ∧
    Generated.CallerDescribe.parentDepths = parentDepthsShape ∧
    Generated.CallerDescribe.parentArms = parentArmsShape := by decide

/-- The scan returns for EVERY process table (any ancestors, any pid-1 process, any neighbours). -/
theorem background_computation_returns (t : Table) : ∃ g, scan theShape t = .ok g :=
  scan_total theShape describe_shape_total t

/-- Hence, whatever the process table, the system with the computation spelled out IS the protocol
model: all theorems above hold for it without the assumption "the computation returns". -/
theorem scan_refines_protocol (t : Table) (cfg : Cfg) (s : State) (cs : List Choice) :
    runScan cfg (scanReturns theShape t) s cs = run cfg s cs := by
  rw [scanReturns_of_total theShape describe_shape_total t]
  exact runScan_true cfg s cs

/-- No deadlock and no `Pending` answer, for every process table and every schedule, computation
included. -/
theorem no_deadlock_with_scan (t : Table) (cfg : Cfg) (cs : List Choice) (s : State)
    (h : runScan cfg (scanReturns theShape t) (init cfg) cs = some s) :
    Cell.pending ∉ s.results ∧
    (final s = false → ∃ c, c ≠ Choice.spurious ∧ (stepScan cfg (scanReturns theShape t) s c).isSome = true) := by
  rw [scan_refines_protocol] at h
  refine ⟨query_never_pending cfg cs s h, fun hf => ?_⟩
  obtain ⟨c, hc, hs⟩ := no_deadlock cfg s ⟨cs, h⟩ hf
  refine ⟨c, hc, ?_⟩
  rw [scanReturns_of_total theShape describe_shape_total t, stepScan_true]
  exact hs

/-! #### Totality is necessary -/

/-- If the computation panics and delta did not launch the command itself, NO schedule ever answers
a query: the cell stays `Pending` and the main thread never finishes. -/
theorem panicking_scan_never_answers (cfg : Cfg) (hk : cfg.known = none) (hq : 0 < cfg.queries)
    (cs : List Choice) (s : State) (h : runScan cfg false (init cfg) cs = some s) :
    s.results = [] ∧ s.cell = Cell.pending ∧ s.mpc ≠ MPc.done := by
  have st := starved_run cfg cs _ s (starved_init cfg hk hq) h
  refine ⟨st.results, st.cell, ?_⟩
  rcases st.mpc with h | h | h | h | h <;> simp [h]

/-- If the callback can panic — some process table makes the scan fail — then a schedule exists in
which the first query waits for ever: the background thread is gone, the main thread sleeps in the
condvar with the mutex free, no step other than a spurious wake-up is enabled, and no continuation
(spurious wake-ups included) ever answers the query. -/
theorem partial_callback_blocks_query (sh : Shape) (t : Table) (hp : scanReturns sh t = false)
    (cfg : Cfg) (hk : cfg.known = none) (hq : 0 < cfg.queries) :
    ∃ cs s, runScan cfg (scanReturns sh t) (init cfg) cs = some s ∧
      s.bpc = BPc.done ∧ s.mpc = MPc.asleep ∧ s.owner = none ∧ s.cell = Cell.pending ∧
      (∀ c, c ≠ Choice.spurious → stepScan cfg (scanReturns sh t) s c = none) ∧
      (∀ cs' s', runScan cfg (scanReturns sh t) s cs' = some s' → s'.results = [] ∧ s'.mpc ≠ MPc.done) := by
  have hq' : cfg.queries ≠ 0 := by omega
  rw [hp]
  refine ⟨[Choice.bg, Choice.main, Choice.main, Choice.main], ?_⟩
  have hrun : runScan cfg false (init cfg) [Choice.bg, Choice.main, Choice.main, Choice.main] =
      some { init cfg with bpc := BPc.done, mpc := MPc.asleep, waiters := [Tid.main] } := by
    simp [runScan, stepScan, stepBgScan, stepMain, init, hk, queryStart, hq']
  refine ⟨_, hrun, rfl, rfl, by simp [init], by simp [init], ?_, ?_⟩
  · intro c hc
    cases c with
    | bg => simp [stepScan, stepBgScan, stepBg]
    | main => simp [stepScan, stepMain]
    | spurious => exact absurd rfl hc
  · intro cs' s' h'
    have st : Starved ({ init cfg with bpc := BPc.done, mpc := MPc.asleep, waiters := [Tid.main] } : State) :=
      starved_run cfg _ _ _ (starved_init cfg hk hq) hrun
    have st' := starved_run cfg cs' _ s' st h'
    refine ⟨st'.results, ?_⟩
    rcases st'.mpc with h | h | h | h | h <;> simp [h]

/-- The flattened callback (`Path::new(&args[0])`, `args[1..]`, no arm for the empty slice — NOT what
the code does) panics on the empty command line … -/
theorem flattened_callback_panics_on_empty :
    describeWith flattenedShape [] = .error "index out of bounds" := by decide

/-- … and on no other input does it differ from the callback of the source: the change is invisible to
every test whose process table has no empty command line. -/
theorem flattened_callback_agrees_on_nonempty (a : Arg) (as : Argv) :
    describeWith flattenedShape (a :: as) = describe (a :: as) :=
  flattened_agrees_on_nonempty (by decide) (by decide) a as

/-- … so under a parent (or any scanned process) without a command line the scan panics … -/
theorem flattened_scan_panics_under_empty_parent (more : List Argv) (sib : Option Argv) (ns : List Argv) :
    scanReturns flattenedShape ⟨[] :: more, sib, ns⟩ = false := by
  simp [scanReturns, scan_panics_of_parent flattenedShape [] _ flattened_callback_panics_on_empty]

/-- … and the first query of a piped delta can wait for ever (`partial_callback_blocks_query`
instantiated): totality of the callback is what `no_deadlock` rests on. -/
theorem flattened_callback_blocks_query :
    ∃ t cs s, runScan cfgGuess (scanReturns flattenedShape t) (init cfgGuess) cs = some s ∧
      s.mpc = MPc.asleep ∧ s.bpc = BPc.done ∧
      (∀ c, c ≠ Choice.spurious → stepScan cfgGuess (scanReturns flattenedShape t) s c = none) ∧
      (∀ cs' s', runScan cfgGuess (scanReturns flattenedShape t) s cs' = some s' → s'.results = []) := by
  obtain ⟨cs, s, h1, h2, h3, _, _, h6, h7⟩ :=
    partial_callback_blocks_query flattenedShape ⟨[[]], none, []⟩
      (flattened_scan_panics_under_empty_parent [] none []) cfgGuess rfl (by decide)
  exact ⟨_, cs, s, h1, h3, h2, h6, fun cs' s' h => (h7 cs' s' h).1⟩

/-- Concrete command lines through the callback of the pinned source (non-vacuity of the model):
`/usr/bin/git -c a=b show --word-diff -p HEAD:src/x.rs`, `RG.exe foo`, `/`, `git status`. -/
example : describe ["/usr/bin/git".toList, "-c".toList, "a=b".toList, "show".toList, "--word-diff=x".toList,
      "-pq".toList, "HEAD:src/x.rs".toList] =
    .ok (.args (.git "GitShow" ⟨["--word-diff".toList], ["-p".toList, "-q".toList], some "HEAD:src/x.rs".toList⟩
      (some "x.rs".toList))) := by decide
example : describe ["RG.exe".toList, "foo".toList] = .ok (.args .otherGrep) := by decide
example : describe ["/".toList, "diff".toList] = .ok .otherProcess := by decide
example : describe ["git".toList, "status".toList] = .ok .argError := by decide
example : scan theShape ⟨[["sh".toList], [], ["git.exe".toList, "blame".toList, "x".toList]], some [], []⟩ =
    .ok (some (.git "GitBlame" ⟨[], [], some "x".toList⟩ none)) := by decide

/-! ### No query before the publication: the call graph of the start-up phase

`startup_publication_precedes_first_query` compares the ORDER of three kinds of statements of `run_app`;
which calls "can query" was a hand-written list of the extractor (`Config::from`, `show_config`, `delta`).
`Generated/CallerQueries.lean` is the call graph of the whole crate by name (every `fn`, every
`lazy_static` initialiser, every macro; resolution rules and what they trust: header of
`tools/extractors/callerqueries.py`), the query primitives (`utils::process::calling_process`, and the
process-table scan `determine_calling_process` / `calling_process_cmdline` should the main thread ever run
it), and the statements of `main` / `run_app` before and after the `set_calling_process(..)` call. The
theorems below are about true reachability in that graph (`CallGraph.Reach`); the kernel evaluates a
bit-set closure whose soundness is proved for every graph (`Proofs/CallGraph.lean`). -/

open CallGraph in
/-- The set the closure computes around everything the statements before the publication can call
(and around the implicitly called trait methods) is closed under calls, contains those roots and
contains no query primitive. (Evaluated by the kernel on the regenerated graph.) -/
theorem pre_publication_closure_has_no_query :
    separates G preRoots prims preClosure = true := by decide +kernel

open CallGraph in
/-- **No query before publication.** No function that can be reached — through any chain of calls by
name, lazy_static initialisers and macros included — from a statement of `main` or `run_app` that runs
before `set_calling_process(..)` (argument parsing, `Opt::from_args_and_git_config`, `set_options`, the
`--version` / `--help` branches, …) is a query primitive, and none of them can reach one. So the first
`calling_process()` of a `delta git …` / `delta rg …` run comes after the publication. -/
theorem no_query_before_publication (f : Nat) (hf : Reach G preRoots f) :
    f ∉ prims ∧ ∀ p ∈ prims, ¬ Reach G [f] p :=
  separates_sound pre_publication_closure_has_no_query hf

open CallGraph in
/-- The start-up order of the main thread DERIVED from the call graph — a statement of `run_app` counts as
"queries" iff something it calls reaches a query primitive — is the order of the model's main thread
(thread start, publication, then queries): the hand-written list of query-capable calls in
`tools/extractors/caller.py` misses nothing the graph sees. -/
theorem startup_order_from_call_graph :
    graphStartup = startupShape ∧ graphStartup = Generated.CallerShape.startupSubcommand := by
  have h : graphStartup = startupShape := by decide +kernel
  exact ⟨h, h.trans startup_publication_precedes_first_query.symm⟩

open CallGraph in
/-- **The first answer is cached after the publication.** (1) A lazy_static whose initialiser can query
(`CACHED_IS_WORD_DIFF` behind `is_word_diff()`; its value is the answer of the FIRST query and stays for
the life of the process) cannot be reached from any statement that precedes the publication, so its
initialiser runs after it. (2) In the start-up program of subcommand mode (`cfg.known = some k`: main
publishes first), under EVERY schedule, whatever mixture of direct `calling_process()` calls and accesses
through the cache the main thread makes (`l`, cache empty at the start), every access — the one that fills
the cache included — returns the published command `k`; in particular the cached value is `k`.
`hk` is needed: without a publication the answers are the guess (`guess_otherwise`). -/
theorem first_answer_is_cached_after_publication :
    (∀ c ∈ Generated.CallerQueries.lazyStatics, (∃ p ∈ prims, Reach G [c] p) → ¬ Reach G preRoots c) ∧
    ∀ (cfg : Cfg) (k : Nat), cfg.known = some k → ∀ (cs : List Choice) (s : State),
      run cfg (init cfg) cs = some s → ∀ (l : List Access) (out : List Cell),
        answers l s.results none = some out → ∀ a ∈ out, a = Cell.val k := by
  refine ⟨?_, ?_⟩
  · intro c _ ⟨p, hp, hr⟩ hpre
    exact (no_query_before_publication c hpre).2 p hp hr
  · intro cfg k hk cs s h l out ho
    exact answers_all_eq (Cell.val k) l s.results none (known_wins cfg k hk cs s h)
      (fun w hw => by cases hw) out ho

open CallGraph Choice in
/-- Variant (NOT what the code does): an access through the cache before the publication — what a test
of `is_word_diff()` inside `set_options` amounts to. The first access waits for the background guess and
caches it; after the publication a direct query returns the launched command but every access through
the cache keeps returning the guess: `[cached, direct, cached]` answers `[guess, command, guess]`. -/
theorem early_cached_query_goes_stale :
    ∃ cs s, runLatePub cfgKnown (initLatePub cfgKnown) cs = some s ∧
      answers [.cached, .direct, .cached] s.results none = some [Cell.val 1, Cell.val 2, Cell.val 1] :=
  ⟨[main, main, main, bg, bg, bg, bg, bg, bg, main, main, main, main,
    main, main, main, main, main, main, main, main, main], _, rfl, by decide⟩

open CallGraph in
/-- Non-vacuity: code that runs after the publication does query — `Config::from` (through
`is_word_diff`), `delta::delta` — and at least one lazy_static is filled by a query. -/
example : canReach G [idOf "config::Config::from"] prims = true ∧
    canReach G [idOf "delta::delta"] prims = true ∧
    canReach G [idOf "options::set::set_options"] prims = false ∧
    (Generated.CallerQueries.lazyStatics.any fun c => canReach G [c] prims) = true := by decide +kernel
open CallGraph in
example : Reach [[1], [2, 3], [], [0]] [0] 3 := .call (i := 1) (.call (i := 0) (.root (by decide)) (by decide)) (by decide)
open CallGraph in
example : separates [[1], [2, 3], [], [0], [5], [0]] [0] [4, 5] (closure [[1], [2, 3], [], [0], [5], [0]] [0]) = true ∧
    separates [[1], [2, 3], [], [0], [5], [3]] [4] [0] (closure [[1], [2, 3], [], [0], [5], [3]] [4]) = false := by decide
open CallGraph in
example : queriesMade [.cached, .direct, .cached] false = 2 ∧
    answers [.cached, .cached, .direct] [Cell.val 7, Cell.val 7] none = some [Cell.val 7, Cell.val 7, Cell.val 7] := by decide

end C20
