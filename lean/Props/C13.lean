import DeltaModel.Options
import Proofs.Options
import Proofs.OptionsFuel
import Proofs.OptionsPerm
import Proofs.OptionsNoGit
import Proofs.OptionsSpec
import Proofs.OptionsPost
import Proofs.OptionsValues
import Proofs.GitParamsMap
import Proofs.ThemeChoice
/-!
C13 — option values resolve by the documented precedence, deterministically.

All theorems are about `Options.gatherFeatures` / `Options.effective`, the functions the model
driver `drv_opts` executes (lean/Driver/Options.lean); `π` is the order in which
`HashMap::keys()` enumerates the builtin feature names.
-/
namespace C13
open Options

/-! ### Concrete inputs used by the `example`s and the witnesses -/

def sortedNames : List Name :=
  ["color-only", "diff-highlight", "diff-so-fancy", "hyperlinks", "line-numbers", "navigate", "raw",
   "side-by-side"]

/-- Another enumeration order: `raw` first. -/
def rawFirst : List Name :=
  ["raw", "color-only", "diff-highlight", "diff-so-fancy", "hyperlinks", "line-numbers", "navigate",
   "side-by-side"]

def noInputs : Inputs :=
  { cli := [], cliFeatures := none, envFeatures := none, envNavigate := false, noGitconfig := false,
    defaultFile := some GitFile.empty, configFile := none, params := [] }

/-- Defect #13: `[delta] raw = true, diff-so-fancy = true`. -/
def w13 : Inputs :=
  { noInputs with
    configFile := some { main := [("raw", "true"), ("diff-so-fancy", "true")], sections := [], other := [] } }

/-- `--file-style red --features "a navigate"`, `[delta] file-style = green, features = b`,
    `[delta "a"] file-style = blue, file-modified-label = A, features = b`, `[delta "b"] …`. -/
def sample : Inputs :=
  { noInputs with
    cli := [("file-style", "red")], cliFeatures := some "a navigate",
    configFile := some
      { main := [("file-style", "green"), ("features", "b"), ("tabs", "3")],
        sections := [("a", [("file-style", "blue"), ("file-modified-label", "A"), ("features", "b")]),
                     ("b", [("file-modified-label", "B"), ("tabs", "5"), ("line-numbers", "true")])],
        other := [] } }

/-- `--no-gitconfig --features side-by-side`, without and with `--config <empty file>`. -/
def wBare : Inputs := { noInputs with noGitconfig := true, cliFeatures := some "side-by-side" }
def wBareCfg : Inputs := { wBare with configFile := some GitFile.empty }

/-! ### Precedence -/

/-- The effective value of an option is the first value found along
    `[command line, main section, then for every gathered feature from the last to the first:
    its custom section, its builtin table]`, else the built-in (clap) default. -/
theorem effective_value_spec (π : List Name) (inp : Inputs) (o : Name) :
    effective π inp o = (firstSome (layers (gatherFeatures π inp) inp o)).getD .dflt := by
  unfold effective effectiveWith layers
  cases hc : lookup o inp.cli with
  | some v => simp [firstSome]
  | none =>
    simp only [Option.map_none, List.cons_append, List.nil_append, firstSome]
    unfold getOptionValue
    cases hm : optGet (finalConfig inp) none o with
    | some v => simp [firstSome]
    | none =>
      simp only [Option.map_none, firstSome, searchFeatures_eq]
      show _ = (firstSome (List.flatMap (featureLayers (builtinsFor inp) (finalConfig inp) o)
        (gatherFeatures π inp).reverse)).getD Val.dflt
      cases firstSome (List.flatMap (featureLayers (builtinsFor inp) (finalConfig inp) o)
        (gatherFeatures π inp).reverse) <;> rfl

-- non-trivial instance: four layers set `file-modified-label`/`tabs`, the features nest
example : gatherFeatures sortedNames sample = ["line-numbers", "b", "a", "navigate"] := by decide
example : effective sortedNames sample "file-modified-label" = .bdef (.lit "Δ") := by decide
example : effective sortedNames sample "tabs" = .git "3" := by decide
example : effective sortedNames sample "line-numbers" = .git "true" := by decide

/-- A value supplied on the command line is the effective value, whatever else is configured. -/
theorem cli_never_overwritten (π : List Name) (inp : Inputs) (o : Name) (v : String)
    (h : lookup o inp.cli = some v) : effective π inp o = .cli v := by
  simp [effective, effectiveWith, h]

example : lookup "file-style" sample.cli = some "red" := by decide
example : effective sortedNames sample "file-style" = .cli "red" := by decide

/-- The fuel of the gathering recursion suffices: more fuel never changes the result. -/
theorem gather_fuel_suffices (π : List Name) (inp : Inputs) (k : Nat)
    (hk : fuelFor (builtinsFor inp) (keysOf (builtinsFor inp) π) inp (finalConfig inp) ≤ k) :
    gatherFeaturesWith k π inp = gatherFeatures π inp :=
  gatherFeaturesWith_stable π inp k hk

example : fuelFor (builtinsFor sample) (keysOf (builtinsFor sample) sortedNames) sample
    (finalConfig sample) ≤ 100 := by decide

/-! ### The main section: `GIT_CONFIG_PARAMETERS` over the file -/

/-- Every `impl GitConfigGet for T` (String, Option<String>, bool, usize, f64) consults
    `GIT_CONFIG_PARAMETERS` before the file — a fact about the table the extractor regenerates
    from src/git_config/mod.rs on every run. -/
theorem all_getters_env_first : ∀ ty : GType, envFirst ty = true := by
  intro ty
  cases ty <;> decide

/-- For every getter type, a key of the main `[delta]` section given in `GIT_CONFIG_PARAMETERS`
    (`git -c delta.k=v`) with a text the getter takes (`envRead ty v = some r`: `r` is its reading)
    wins over whatever the file says. -/
theorem git_config_parameters_override_file (g : GitCfg) (ty : GType) (k : Name) (v r : String)
    (he : g.enabled = true) (hp : lookup k g.params = some v) (ha : envRead ty v = some r) :
    g.getT ty none k = some r := by
  unfold GitCfg.getT
  simp [he, hp, ha, all_getters_env_first ty]

/-- … lifted through `effective_value_spec`: unless the option is given on the command line, its
    effective value is the `GIT_CONFIG_PARAMETERS` value — the file's `[delta]` section, every
    feature and every builtin default notwithstanding. -/
theorem git_config_parameters_override_effective (π : List Name) (inp : Inputs) (g : GitCfg)
    (o : Name) (v r : String) (hg : finalConfig inp = some g) (he : g.enabled = true)
    (hcli : lookup o inp.cli = none) (hp : lookup o g.params = some v)
    (ha : envRead (optionType o) v = some r) :
    effective π inp o = .git r := by
  rw [effective_value_spec]
  unfold layers
  simp [hcli, hg, optGet, git_config_parameters_override_file g (optionType o) o v r he hp ha, firstSome]

/-- `[delta] width = 60, tabs = 3, max-line-distance = 0.3, navigate = false, file-style = green`
    in the file, all five overridden by `git -c`, and a feature that sets them as well. -/
def both : Inputs :=
  { noInputs with
    cliFeatures := some "a"
    params := [("width", "40"), ("tabs", "4"), ("max-line-distance", "0.5"), ("navigate", "true"),
               ("file-style", "yellow")]
    configFile := some
      { main := [("width", "60"), ("tabs", "3"), ("max-line-distance", "0.3"), ("navigate", "false"),
                 ("file-style", "green")],
        sections := [("a", [("width", "50"), ("tabs", "5"), ("file-style", "blue")])],
        other := [] } }

example : (optionType "width", optionType "tabs", optionType "max-line-distance", optionType "navigate",
    optionType "file-style") = (.optString, .usize, .f64, .bool, .string) := by decide
example : (effective sortedNames both "width", effective sortedNames both "tabs",
    effective sortedNames both "max-line-distance", effective sortedNames both "navigate",
    effective sortedNames both "file-style") =
    (.git "40", .git "4", .git "0.5", .git "true", .git "yellow") := by decide
-- a parameter text git itself rejects for the type falls through to the file; a spelling git accepts
-- (`yes`, `1k`) is read as git reads it (repaired by dee2b19: before, only `true` / `false` / plain digits counted)
example : effective sortedNames { both with params := [("tabs", "x"), ("navigate", "maybe")] } "tabs" = .git "3" ∧
    effective sortedNames { both with params := [("tabs", "x"), ("navigate", "maybe")] } "navigate" = .git "false" := by
  decide

/-! ### A source sets an option iff the key is present — however the value is spelled -/

/-- `file_value_read_as_git`. For every getter type (`String`, `Option<String>`, `bool`, `usize`,
    `f64`) and every value git itself accepts for that type — git's integer syntax with unit
    suffixes, hexadecimal and octal; `true/yes/on/1`, `false/no/off/0`, the empty value and a key
    without value for booleans; Rust's float syntax; any text — the file half of the getter
    (`get_string` / `get_bool` / `get_i64` and what the impl does next; which, is regenerated from
    src/git_config/mod.rs: `Generated.Options.getterParsers`) returns git's own reading of it. So
    the spelling never makes a source of the file "not set" the option. -/
theorem file_value_read_as_git (ty : GType) (v r : String)
    (h : gitReading ty.name (fileValue v) = some r) : fileRead ty v = some r := by
  cases ty
  · have hp : (parsersOf GType.string.name).2 = "git-string" := by decide
    unfold fileRead
    rw [hp, fileReadBy_gitString]
    rw [show GType.string.name = "string" from rfl, gitReading_string] at h
    exact h
  · have hp : (parsersOf GType.optString.name).2 = "git-string" := by decide
    unfold fileRead
    rw [hp, fileReadBy_gitString]
    rw [show GType.optString.name = "optString" from rfl, gitReading_optString] at h
    exact h
  · have hp : (parsersOf GType.bool.name).2 = "git-bool" := by decide
    unfold fileRead
    rw [hp, fileReadBy_gitBool]
    rw [show GType.bool.name = "bool" from rfl, gitReading_bool] at h
    exact h
  · have hp : (parsersOf GType.usize.name).2 = "git-i64-as-usize" := by decide
    unfold fileRead
    rw [hp]
    exact fileReadBy_gitI64_eq_gitReading v r h
  · have hp : (parsersOf GType.f64.name).2 = "string-parse-f64" := by decide
    unfold fileRead
    rw [hp]
    exact fileReadBy_parseF64_eq_gitReading v r h

-- what git reads, and what the getters read, for some spellings (`bareMark`: a key without value)
example : [gitReading "usize" (some "1k"), gitReading "usize" (some "0x10"), gitReading "usize" (some "010"),
    gitReading "usize" (some "+5"), gitReading "usize" (some "2M"), gitReading "usize" (some "1kb"),
    gitReading "usize" (some ""), gitReading "usize" none, gitReading "usize" (some "-1")] =
    [some "1024", some "16", some "8", some "5", some "2097152", none, none, none, none] := by decide
example : (["true", "Yes", "ON", "1", "-1", "1k", bareMark].map (fileRead .bool),
    ["false", "No", "oFF", "0", "00", ""].map (fileRead .bool), ["t", "maybe", "2147483648"].map (fileRead .bool)) =
    ([some "true", some "true", some "true", some "true", some "true", some "true", some "true"],
     [some "false", some "false", some "false", some "false", some "false", some "false"],
     [none, none, none]) := by decide
example : ["0.3", ".5", "5.", "5e-1", "+0.5", "inf", "1k", "0x1", "", " 0.5", bareMark].map (fileRead .f64) =
    [some "0.3", some ".5", some "5.", some "5e-1", some "+0.5", some "inf", none, none, none, none, none] := by decide
example : (fileRead .string bareMark, fileRead .optString "", fileRead .usize "8g", fileRead .usize "-1") =
    (some "", some "", some "8589934592", some "18446744073709551615") := by decide

/-- `git_integer_syntax_sets`. The documented integer syntax of git config, for every number of
    digits: a decimal number (no leading zero), alone or followed by a unit `k`/`K`, `m`/`M`,
    `g`/`G`, whose product with 1024 / 1024² / 1024³ is an `int64_t`, is read by the `usize` getter's
    file half as that product. -/
theorem git_integer_syntax_sets (c : Char) (ds : List Char) (hc : digitVal c < 10) (hc0 : c ≠ '0')
    (hd : ∀ x ∈ ds, digitVal x < 10) :
    (decVal (c :: ds) ≤ 9223372036854775807 →
      fileRead .usize (String.ofList (c :: ds)) = some (toString (decVal (c :: ds)))) ∧
    (∀ (u : Char) (f : Nat), unitFactor u = some f → decVal (c :: ds) * f ≤ 9223372036854775807 →
      fileRead .usize (String.ofList (c :: ds ++ [u])) = some (toString (decVal (c :: ds) * f))) := by
  have hne : ∀ l : List Char, String.ofList (c :: l) ≠ bareMark := by
    intro l h
    have := congrArg String.toList h
    simp only [String.toList_ofList, bareMark] at this
    have hc' : c = Char.ofNat 0 := by
      have := List.head_eq_of_cons_eq this
      exact this
    subst hc'
    revert hc; decide
  constructor
  · intro hfit
    apply file_value_read_as_git
    rw [show GType.usize.name = "usize" from rfl, gitReading_usize]
    simp only [fileValue, hne ds, ↓reduceIte, gitParseInt64_decimal c ds hc hc0 hd hfit, Option.bind_some]
    simp
  · intro u f hu hfit
    apply file_value_read_as_git
    have hv : fileValue (String.ofList (c :: ds ++ [u])) = some (String.ofList (c :: ds ++ [u])) := by
      unfold fileValue
      exact if_neg (hne (ds ++ [u]))
    rw [show GType.usize.name = "usize" from rfl, gitReading_usize, hv,
      gitParseInt64_decimal_unit c ds u f hc hc0 hd hu hfit]
    have h0 : (0 : Int) ≤ ((decVal (c :: ds) * f : Nat) : Int) := Int.natCast_nonneg _
    simp only [Option.bind_some, h0, ↓reduceIte, Int.toNat_natCast]

example : digitVal '3' < 10 ∧ ('3' : Char) ≠ '0' ∧ (∀ x ∈ ['0', '7'], digitVal x < 10) ∧
    unitFactor 'k' = some 1024 ∧ decVal ['3', '0', '7'] * 1024 = 314368 ∧
    fileRead .usize "307k" = some "314368" := by decide

/-- `git_bool_spellings_set`. The boolean spellings of git config: `true` / `yes` / `on` in any
    letter case and a key written without a value are read as true, `false` / `no` / `off` in any
    case and the empty value as false (integers: `example` above) — by the `bool` getter's file half. -/
theorem git_bool_spellings_set (v : String) :
    ((v = bareMark ∨ eqIgnoreAsciiCase v "true" = true ∨ eqIgnoreAsciiCase v "yes" = true ∨
        eqIgnoreAsciiCase v "on" = true) → fileRead .bool v = some "true") ∧
    ((eqIgnoreAsciiCase v "false" = true ∨ eqIgnoreAsciiCase v "no" = true ∨
        eqIgnoreAsciiCase v "off" = true ∨ v = "") → fileRead .bool v = some "false") := by
  constructor
  · intro h
    apply file_value_read_as_git
    rw [show GType.bool.name = "bool" from rfl, gitReading_bool, gitParseBool_true_words]
    · rfl
    · unfold fileValue
      by_cases hb : v = bareMark
      · left; simp [hb]
      · right
        refine ⟨v, by simp [hb], ?_⟩
        rcases h with h | h | h | h
        · exact absurd h hb
        · exact Or.inl h
        · exact Or.inr (Or.inl h)
        · exact Or.inr (Or.inr h)
  · intro h
    apply file_value_read_as_git
    have hb : v ≠ bareMark := by
      intro hb; subst hb; revert h; decide
    rw [show GType.bool.name = "bool" from rfl, gitReading_bool]
    unfold fileValue
    rw [if_neg hb, gitParseBool_false_words v h]
    rfl

example : eqIgnoreAsciiCase "YeS" "yes" = true ∧ eqIgnoreAsciiCase "oFF" "off" = true ∧
    fileRead .bool "YeS" = some "true" ∧ fileRead .bool "oFF" = some "false" := by decide

/-- `section_sets_iff_key_present`. A `[delta "f"]` section sets option `k` (read at type `ty`)
    exactly when the key is present — whatever its spelling, as long as git accepts the value for
    the type — and the value it contributes is git's reading of it. -/
theorem section_sets_iff_key_present (g : GitCfg) (ty : GType) (f k : Name)
    (sct : List (Name × String)) (he : g.enabled = true) (hs : lookup f g.file.sections = some sct)
    (hlang : ∀ v, lookup k sct = some v → (gitReading ty.name (fileValue v)).isSome = true) :
    g.getT ty (some f) k = (lookup k sct).bind (fun v => gitReading ty.name (fileValue v)) ∧
    ((g.getT ty (some f) k).isSome = (lookup k sct).isSome) := by
  unfold GitCfg.getT
  simp only [he, ↓reduceIte, hs]
  cases hk : lookup k sct with
  | none => simp
  | some v =>
    have := hlang v hk
    cases hr : gitReading ty.name (fileValue v) with
    | none => simp [hr] at this
    | some r => simp [file_value_read_as_git ty v r hr, hr]

/-- `main_section_sets_iff_key_present`. The main section (file and `GIT_CONFIG_PARAMETERS`) sets
    option `k` exactly when the key is present in one of the two, provided the file value is one git
    accepts for the type and the `GIT_CONFIG_PARAMETERS` text is one the getter's own first half
    takes (see `params_git_spelling_not_read`: on the unchanged tree that half is narrower than git
    for `bool` and `usize`). -/
theorem main_section_sets_iff_key_present (g : GitCfg) (ty : GType) (k : Name) (he : g.enabled = true)
    (hfile : ∀ v, lookup k g.file.main = some v → (gitReading ty.name (fileValue v)).isSome = true)
    (henv : ∀ v, lookup k g.params = some v → (envRead ty v).isSome = true) :
    (g.getT ty none k).isSome = ((lookup k g.params).isSome || (lookup k g.file.main).isSome) := by
  unfold GitCfg.getT
  simp only [he, ↓reduceIte, all_getters_env_first ty]
  cases hp : lookup k g.params with
  | some v =>
    have := henv v hp
    cases hr : envRead ty v with
    | none => simp [hr] at this
    | some r => simp [hr]
  | none =>
    cases hf : lookup k g.file.main with
    | none => simp
    | some v =>
      have := hfile v hf
      cases hr : gitReading ty.name (fileValue v) with
      | none => simp [hr] at this
      | some r => simp [file_value_read_as_git ty v r hr]

/-- `main_file_value_effective`. An option set in the `[delta]` section of the file — and neither
    on the command line nor in `GIT_CONFIG_PARAMETERS` — has git's reading of that value as its
    effective value, every feature and default notwithstanding: `max-line-length = 1k` is 1024,
    not the value of some feature. -/
theorem main_file_value_effective (π : List Name) (inp : Inputs) (g : GitCfg) (o : Name) (v r : String)
    (hg : finalConfig inp = some g) (he : g.enabled = true) (hcli : lookup o inp.cli = none)
    (hp : lookup o g.params = none) (hf : lookup o g.file.main = some v)
    (hr : gitReading (optionType o).name (fileValue v) = some r) :
    effective π inp o = .git r := by
  rw [effective_value_spec]
  unfold layers
  have : g.getT (optionType o) none o = some r := by
    unfold GitCfg.getT
    simp [he, hp, hf, all_getters_env_first, file_value_read_as_git _ v r hr]
  simp [hcli, hg, optGet, this, firstSome]

/-- `[delta] max-line-length = 1k, tabs = 0x10, navigate = yes, line-numbers (no value),
    max-line-distance = 5e-1`, `--features "a raw"` with `[delta "a"]` setting all of them in plain
    spellings, `diff-stat-align-width = 2K` in `[delta "a"]` only. -/
def spelled : Inputs :=
  { noInputs with
    cliFeatures := some "a raw"
    configFile := some
      { main := [("max-line-length", "1k"), ("tabs", "0x10"), ("navigate", "yes"), ("line-numbers", bareMark),
                 ("max-line-distance", "5e-1")],
        sections := [("a", [("max-line-length", "7"), ("tabs", "2"), ("navigate", "false"),
                            ("line-numbers", "false"), ("max-line-distance", "0.9"),
                            ("diff-stat-align-width", "2K"), ("hyperlinks", "On")])],
        other := [] } }

example : (effective sortedNames spelled "max-line-length", effective sortedNames spelled "tabs",
    effective sortedNames spelled "navigate", effective sortedNames spelled "line-numbers",
    effective sortedNames spelled "max-line-distance", effective sortedNames spelled "diff-stat-align-width",
    effective sortedNames spelled "hyperlinks") =
    (.git "1024", .git "16", .git "true", .git "true", .git "5e-1", .git "2048", .git "true") := by decide
-- a value git rejects for the type (`fatal: bad numeric config value`) is not read: the next source is taken
example : effective sortedNames
    { spelled with configFile := spelled.configFile.map fun f => { f with main := [("max-line-length", "1kb")] } }
    "max-line-length" = .git "7" := by decide

/-- The `GIT_CONFIG_PARAMETERS` half reads a text git accepts as git does — for the three getter
    types where that is true of the unchanged tree (`String`, `Option<String>`, `f64`). -/
theorem params_value_read_as_git_partial (ty : GType) (hty : ty = .string ∨ ty = .optString ∨ ty = .f64)
    (v r : String) (h : gitReading ty.name (some v) = some r) : envRead ty v = some r := by
  rcases hty with hty | hty | hty <;> subst hty
  · have hp : (parsersOf GType.string.name).1 = "string" := by decide
    unfold envRead
    rw [hp, envReadBy_string]
    rw [show GType.string.name = "string" from rfl, gitReading_string] at h
    exact h
  · have hp : (parsersOf GType.optString.name).1 = "string" := by decide
    unfold envRead
    rw [hp, envReadBy_string]
    rw [show GType.optString.name = "optString" from rfl, gitReading_optString] at h
    exact h
  · have hp : (parsersOf GType.f64.name).1 = "parse-f64" := by decide
    unfold envRead
    rw [hp]
    exact envReadBy_parseF64_eq_gitReading v r h

/-- FULL STATEMENT for the `GIT_CONFIG_PARAMETERS` half (every type) — holds as soon as the `bool`
    and `usize` getters read that text with libgit2's own parsers (`git2::Config::parse_bool` /
    `parse_i64`: the proposed repair, notes/fix-opts-params-git-spellings.diff); the hypothesis is a
    fact about the regenerated `getterParsers` table. -/
theorem params_value_read_as_git (hx : (parsersOf GType.bool.name).1 = "git-bool" ∧
      (parsersOf GType.usize.name).1 = "git-i64-as-usize")
    (ty : GType) (v r : String) (h : gitReading ty.name (some v) = some r) : envRead ty v = some r := by
  cases ty
  · exact params_value_read_as_git_partial _ (Or.inl rfl) v r h
  · exact params_value_read_as_git_partial _ (Or.inr (Or.inl rfl)) v r h
  · unfold envRead
    rw [hx.1, envReadBy_gitBool]
    rw [show GType.bool.name = "bool" from rfl, gitReading_bool] at h
    exact h
  · unfold envRead
    rw [hx.2]
    exact envReadBy_gitI64_eq_gitReading v r h
  · exact params_value_read_as_git_partial _ (Or.inr (Or.inr rfl)) v r h

/-- `[delta] navigate = true, tabs = 3` in the file; `git -c delta.navigate=no -c delta.tabs=1k`. -/
def paramsSpelled : Inputs :=
  { noInputs with
    params := [("navigate", "no"), ("tabs", "1k")]
    configFile := some { main := [("navigate", "true"), ("tabs", "3")], sections := [], other := [] } }

/-- Defect (unchanged tree): the `bool` getter takes only the texts `true` / `false` from
    `GIT_CONFIG_PARAMETERS` and the `usize` getter only what Rust's `parse::<usize>` takes, so
    `git -c delta.navigate=no` and `git -c delta.tabs=1k` — values git reads as `false` and 1024 —
    are silently dropped and the *file* (a lower-priority source) decides. -/
theorem params_git_spelling_not_read (hx : (parsersOf GType.bool.name).1 = "bool-literal" ∧
      (parsersOf GType.usize.name).1 = "parse-usize") :
    (gitReading "bool" (some "no") = some "false" ∧ envRead .bool "no" = none ∧
      effective sortedNames paramsSpelled "navigate" = .git "true") ∧
    (gitReading "usize" (some "1k") = some "1024" ∧ envRead .usize "1k" = none ∧
      effective sortedNames paramsSpelled "tabs" = .git "3") := by
  revert hx
  decide

/-- **The `GIT_CONFIG_PARAMETERS` half reads every value as git does — unconditionally on the repaired tree**
    (fix dee2b19: the regenerated `getterParsers` rows are `git-bool` / `git-i64-as-usize`, checked here by
    `decide` over the generated table; on a tree where they are not, this theorem no longer builds). With
    `file_value_read_as_git`: whatever the spelling, a source of either half of the main section that holds the
    key sets the option to git's reading of the value. -/
theorem params_value_read_as_git_any (ty : GType) (v r : String)
    (h : gitReading ty.name (some v) = some r) : envRead ty v = some r :=
  params_value_read_as_git (by decide) ty v r h

-- `git -c delta.navigate=no -c delta.tabs=1k` over `[delta] navigate = true, tabs = 3`: the parameters win
example : effective sortedNames paramsSpelled "navigate" = .git "false" ∧
    effective sortedNames paramsSpelled "tabs" = .git "1024" := by decide

/-! ### The statements of `set_options` around the macro -/

/-- `post_processing_respects_sources`. A value that came from a source — command line, main
    `[delta]` section (file or `GIT_CONFIG_PARAMETERS`), a custom feature section, a builtin
    feature — is final: no statement of `set_options` rewrites it; only clap's built-in default
    may be rewritten (the side-by-side `normal`→`syntax` rule). The one documented exception is the
    `--color-only` block (`side-by-side`, `*-decoration-style`), excluded by `hco`. Rests on two
    facts about the statement list the extractor regenerates from `set_options`
    (`sbs_rule_runs_before_macro`, `post_statements_allowed`). Not covered: the options in
    `uninterpretedOptions` (`true-color` alias, `navigate`/`syntax-theme` environment fall-backs,
    `light`/`dark`, `whitespace-error-style`), whose statements the model does not interpret. -/
theorem post_processing_respects_sources (π : List Name) (inp : Inputs) (o : Name)
    (hsrc : effective π inp o ≠ .dflt)
    (hco : o ∈ colorOnlyResetOptions →
      valIsTrue (effective π inp "color-only") = false) :
    finalValue π inp o = effective π inp o := by
  unfold finalValue finalWith effective at *
  exact foldl_fixed _ _ _ (fun s hs => applyStmt_fixed _ _ _ o _ s hs hsrc hco)

/-- `--side-by-side`, `[delta] minus-style = normal "#3f0001"`,
    `[delta "a"] minus-emph-style = normal red` with `--features a`. -/
def sbsNormal : Inputs :=
  { noInputs with
    cli := [("side-by-side", "true")]
    cliFeatures := some "a"
    configFile := some
      { main := [("minus-style", "normal \"#3f0001\"")],
        sections := [("a", [("minus-emph-style", "normal red")])], other := [] } }

-- values from the main section and from a custom feature survive side-by-side; the clap default does not
example : finalValue sortedNames sbsNormal "minus-style" = .git "normal \"#3f0001\"" ∧
    finalValue sortedNames sbsNormal "minus-emph-style" = .git "normal red" ∧
    finalValue sortedNames { sbsNormal with configFile := none } "minus-style" = .pre "syntax auto" ∧
    finalValue sortedNames { sbsNormal with cli := [] } "minus-style" = .git "normal \"#3f0001\"" := by
  decide
example : uninterpretedOptions =
    ["navigate", "syntax-theme", "features", "features", "dark", "light", "syntax-theme",
     "whitespace-error-style", "true-color"] := by decide
-- the documented exception: `color-only` (here from the main section) resets `side-by-side`, even from the command line
example : finalValue sortedNames
      { sbsNormal with configFile := some { main := [("color-only", "true")], sections := [], other := [] } }
      "side-by-side" = .post "false" ∧
    colorOnlyResetOptions = ["commit-decoration-style", "file-decoration-style",
      "hunk-header-decoration-style", "side-by-side"] := by decide

/-! ### The gathered feature list is the documented order -/

/-- `gather_eq_spec`. With a git config object present, the list `gather_features` builds —
    read from its high-priority (right-hand) end, repeats dropped — is the documented order:
    the first-occurrence de-duplicated pre-order traversal of the feature forest whose roots are
    `--features` / `DELTA_FEATURES` (last listed first), then the command-line feature flags, then
    `[delta] features` (only if no feature list was given), then the feature flags of `[delta]`;
    a feature's children are the features its builtin table names, the `features` key of its
    `[delta "f"]` section (last listed first) and the builtin flags set there.

    Hypotheses (all decidable for a concrete configuration): the feature graph without
    self-loops is acyclic, witnessed by a rank table `rk` (cyclic configurations terminate in the
    model — `gather_fuel_suffices` — but are outside this statement); `π` lists builtin names;
    no `[delta "<builtin name>"]` section itself enables features (the Rust expands such a
    section only on some of the paths that reach the builtin; not documented). -/
theorem gather_eq_spec (π : List Name) (inp : Inputs) (g : GitCfg) (hg : finalConfig inp = some g)
    (rk : List (Name × Nat)) (B : Nat)
    (hdec : ∀ f ∈ graphNodes (builtinsFor inp) g,
      ∀ c ∈ childrenOf (builtinsFor inp) (keysOf (builtinsFor inp) π) g f, rankOf rk c < rankOf rk f)
    (hbound : ∀ p ∈ rk, p.2 < B) (hB : 0 < B) (hπ : ∀ c ∈ π, c ∈ builtinNames)
    (hreg : ∀ b ∈ builtinNames, secFeatures g (some b) = [] ∧
      ∀ c ∈ keysOf (builtinsFor inp) π, g.getBool (some b) c ≠ some true)
    (d : Nat) (hd : B ≤ d) :
    dedup (gatherFeatures π inp).reverse = specOrder d (keysOf (builtinsFor inp) π) inp g :=
  gatherFeatures_spec π inp g hg (rankOf rk) B
    (regular_of_checks π inp g rk B hdec hbound hB hπ hreg) d hd

def sampleCfg : GitCfg :=
  { enabled := true, params := [],
    file := { main := [("file-style", "green"), ("features", "b"), ("tabs", "3")],
              sections := [("a", [("file-style", "blue"), ("file-modified-label", "A"), ("features", "b")]),
                           ("b", [("file-modified-label", "B"), ("tabs", "5"), ("line-numbers", "true")])],
              other := [] } }

def sampleRank : List (Name × Nat) :=
  [("a", 3), ("b", 2), ("side-by-side", 2), ("line-numbers", 1)]

-- the hypotheses hold for `sample` (nested custom features, a builtin enabled by a flag in a
-- custom section, a builtin named on the command line), and the conclusion is not vacuous
example : finalConfig sample = some sampleCfg := by decide
example : ∀ f ∈ graphNodes (builtinsFor sample) sampleCfg,
    ∀ c ∈ childrenOf (builtinsFor sample) (keysOf (builtinsFor sample) sortedNames) sampleCfg f,
      rankOf sampleRank c < rankOf sampleRank f := by decide
example : (∀ p ∈ sampleRank, p.2 < 4) ∧ (∀ c ∈ sortedNames, c ∈ builtinNames) := by decide
example : ∀ b ∈ builtinNames, secFeatures sampleCfg (some b) = [] ∧
    ∀ c ∈ keysOf (builtinsFor sample) sortedNames, sampleCfg.getBool (some b) c ≠ some true := by decide
example : specOrder 4 (keysOf (builtinsFor sample) sortedNames) sample sampleCfg =
    ["navigate", "a", "b", "line-numbers"] := by decide
/-- A cyclic configuration: `[delta "a"] features = b`, `[delta "b"] features = a c`. -/
def cyclic : Inputs :=
  { noInputs with
    cliFeatures := some "a"
    configFile := some { main := [], sections := [("a", [("features", "b")]), ("b", [("features", "a c")])],
                         other := [] } }

def cyclicCfg : GitCfg :=
  { enabled := true, params := [],
    file := { main := [], sections := [("a", [("features", "b")]), ("b", [("features", "a c")])],
              other := [] } }

-- cyclic configurations are outside the hypotheses, but the unfolded spec still agrees there
example : finalConfig cyclic = some cyclicCfg ∧
    dedup (gatherFeatures sortedNames cyclic).reverse = ["a", "b", "c"] ∧
    specOrder 6 (keysOf (builtinsFor cyclic) sortedNames) cyclic cyclicCfg = ["a", "b", "c"] := by
  decide

/-- The effective value, stated along the documented order itself. -/
theorem effective_value_documented_order (π : List Name) (inp : Inputs) (g : GitCfg)
    (hg : finalConfig inp = some g) (rk : List (Name × Nat)) (B : Nat)
    (hdec : ∀ f ∈ graphNodes (builtinsFor inp) g,
      ∀ c ∈ childrenOf (builtinsFor inp) (keysOf (builtinsFor inp) π) g f, rankOf rk c < rankOf rk f)
    (hbound : ∀ p ∈ rk, p.2 < B) (hB : 0 < B) (hπ : ∀ c ∈ π, c ∈ builtinNames)
    (hreg : ∀ b ∈ builtinNames, secFeatures g (some b) = [] ∧
      ∀ c ∈ keysOf (builtinsFor inp) π, g.getBool (some b) c ≠ some true)
    (d : Nat) (hd : B ≤ d) (o : Name) :
    effective π inp o =
      (firstSome ([(lookup o inp.cli).map Val.cli, (g.getT (optionType o) none o).map Val.git] ++
        (specOrder d (keysOf (builtinsFor inp) π) inp g).flatMap
          (featureLayers (builtinsFor inp) (some g) o))).getD .dflt := by
  rw [effective_value_spec, ← gather_eq_spec π inp g hg rk B hdec hbound hB hπ hreg d hd]
  unfold layers
  simp only [hg, optGet]
  rw [firstSome_append, firstSome_append]
  congr 2
  exact firstSome_flatMap_dedup (featureLayers (builtinsFor inp) (some g) o) _

/-! ### `--no-gitconfig` -/

/-- With `--no-gitconfig` nothing that is *read from* git config matters: the default file, the
    contents of the `--config` file and `GIT_CONFIG_PARAMETERS` may be anything. (The two inputs
    must agree on whether `--config` is given at all; see the next two theorems.) -/
theorem no_gitconfig_ignores_contents (π : List Name) (a b : Inputs) (h : SameButGit a b)
    (hn : a.noGitconfig = true) (hc : a.configFile.isSome = b.configFile.isSome) :
    gatherFeatures π a = gatherFeatures π b ∧ ∀ o, effective π a o = effective π b o := by
  have hnb : b.noGitconfig = true := h.2.2.2.2 ▸ hn
  have hg : gatherFeatures π a = gatherFeatures π b := by
    rw [gatherFeatures_noGit π a hn, gatherFeatures_noGit π b hnb, hc, fuelOff_congr π h]
    exact gatherOff_congr _ _ π h
  refine ⟨hg, fun o => ?_⟩
  unfold effective
  rw [effectiveWith_noGit _ a hn, effectiveWith_noGit _ b hnb, hg]
  exact effectiveOff_congr _ h o

example : SameButGit { wBareCfg with configFile := sample.configFile, params := [("tabs", "4")] } wBareCfg ∧
    wBareCfg.noGitconfig = true := by decide

/-- FULL STATEMENT (`--no-gitconfig` ignores every git config source, including whether a
    `--config` file is named) — false on the unchanged tree, see
    `no_gitconfig_config_presence_matters`; it holds as soon as `gather_features` expands builtin
    features in its no-git-config branch (`Generated.Options.noConfigExpands`, read from set.rs). -/
theorem no_gitconfig_ignores_all (hx : Generated.Options.noConfigExpands = true) (π : List Name)
    (a b : Inputs) (h : SameButGit a b) (hn : a.noGitconfig = true) :
    gatherFeatures π a = gatherFeatures π b ∧ ∀ o, effective π a o = effective π b o := by
  have hnb : b.noGitconfig = true := h.2.2.2.2 ▸ hn
  have hg : gatherFeatures π a = gatherFeatures π b := by
    rw [gatherFeatures_noGit π a hn, gatherFeatures_noGit π b hnb, hx, fuelOff_congr π h]
    simp only [Bool.or_true]
    exact gatherOff_congr _ _ π h
  refine ⟨hg, fun o => ?_⟩
  unfold effective
  rw [effectiveWith_noGit _ a hn, effectiveWith_noGit _ b hnb, hg]
  exact effectiveOff_congr _ h o

/-- Defect (unchanged tree): `delta --no-gitconfig --features side-by-side` leaves `line-numbers`
    off, `delta --no-gitconfig --config <empty> --features side-by-side` turns it on — the builtin
    sub-feature is not gathered when there is no git config object at all. -/
theorem no_gitconfig_config_presence_matters (hx : Generated.Options.noConfigExpands = false) :
    SameButGit wBare wBareCfg ∧ wBare.noGitconfig = true ∧
      effective sortedNames wBare "line-numbers" ≠ effective sortedNames wBareCfg "line-numbers" := by
  revert hx
  decide

/-- The part of the full statement that holds on the unchanged tree: if no feature named by
    `--features` / `DELTA_FEATURES` is a builtin feature, `--no-gitconfig` ignores everything,
    including the presence of `--config`. -/
theorem no_gitconfig_ignores_all_partial (π : List Name) (a b : Inputs) (h : SameButGit a b)
    (hn : a.noGitconfig = true) (hf : ∀ f ∈ inputFeatures a, lookup f (builtinsFor a) = none) :
    gatherFeatures π a = gatherFeatures π b ∧ ∀ o, effective π a o = effective π b o := by
  have hnb : b.noGitconfig = true := h.2.2.2.2 ▸ hn
  have hg : gatherFeatures π a = gatherFeatures π b := by
    rw [gatherFeatures_noGit π a hn, gatherFeatures_noGit π b hnb, fuelOff_congr π h,
      gatherOff_expand_irrelevant _ (b.configFile.isSome || Generated.Options.noConfigExpands) _ π a hf]
    exact gatherOff_congr _ _ π h
  refine ⟨hg, fun o => ?_⟩
  unfold effective
  rw [effectiveWith_noGit _ a hn, effectiveWith_noGit _ b hnb, hg]
  exact effectiveOff_congr _ h o

example : ∀ f ∈ inputFeatures { wBare with cliFeatures := some "a b", cli := [("navigate", "true")] },
    lookup f (builtinsFor { wBare with cliFeatures := some "a b", cli := [("navigate", "true")] }) = none := by
  decide

/-! ### Determinism -/

/-- FULL STATEMENT `gather_perm_invariant` (the result does not depend on the enumeration order
    `π` of the builtin feature names) is FALSE for the gathering as written: defect #13,
    `[delta] raw = true, diff-so-fancy = true`. -/
theorem gather_perm_invariant_false :
    ¬ ∀ (π π' : List Name) (inp : Inputs), π.Perm π' → π.Nodup →
        gatherFeatures π inp = gatherFeatures π' inp := by
  intro h
  have hp : sortedNames.Perm rawFirst := by decide
  have := h sortedNames rawFirst w13 hp (by decide)
  revert this
  decide

/-- … and the difference reaches an option value: `file-style` is `11` (bright yellow) under one
    order and `raw` under the other. -/
theorem effective_perm_dependent :
    effective sortedNames w13 "file-style" = .bdef (.lit "11") ∧
    effective rawFirst w13 "file-style" = .bdef (.lit "raw") := by
  decide

/-- `gather_perm_invariant` under the hypothesis that no git config section sets more than one
    builtin feature flag to true (what remains true of the unchanged tree; the generated tables
    themselves never name two builtin features in one feature). -/
theorem gather_perm_invariant_of_at_most_one_flag (π π' : List Name) (inp : Inputs)
    (hp : π.Perm π') (hnd : π.Nodup) (hπ : ∀ c ∈ π, c ∈ builtinNames)
    (hS : ∀ g, finalConfig inp = some g → SectionsAtMostOneB g (keysOf (builtinsFor inp) π)) :
    gatherFeatures π inp = gatherFeatures π' inp ∧ ∀ o, effective π inp o = effective π' inp o := by
  have hg := gatherFeatures_perm hp hnd inp (tablesAtMostOne_builtinsFor inp π hπ)
    (fun g h => sectionsAtMostOne_of_bounded g _ (hS g h))
  exact ⟨hg, fun o => by unfold effective; rw [hg]⟩

-- `sample` has one builtin flag (`[delta "b"] line-numbers = true`): its result is the same for
-- every enumeration order; `w13` (two flags in `[delta]`) fails the hypothesis
example : sortedNames.Perm rawFirst ∧ sortedNames.Nodup ∧ (∀ c ∈ sortedNames, c ∈ builtinNames) ∧
    SectionsAtMostOneB sampleCfg (keysOf (builtinsFor sample) sortedNames) := by decide
example : ¬ SectionsAtMostOneB
    { enabled := true, params := [], file := { main := [("raw", "true"), ("diff-so-fancy", "true")],
                                                sections := [], other := [] } }
    (keysOf (builtinsFor w13) sortedNames) := by decide

/-- … and with a fixed enumeration order (the proposed repair: iterate the sorted names) the
    order is no longer an input at all. -/
theorem gather_deterministic_of_fixed_order (order : List Name) (π π' : List Name) (inp : Inputs)
    (h : π = order) (h' : π' = order) :
    gatherFeatures π inp = gatherFeatures π' inp ∧ ∀ o, effective π inp o = effective π' inp o := by
  subst h; subst h'; exact ⟨rfl, fun _ => rfl⟩

example : gatherFeatures sortedNames w13 = ["raw", "diff-so-fancy"] := by decide

/-! ### How `GIT_CONFIG_PARAMETERS` is read (T11) -/

/-- The pattern text of `GIT_CONFIG_PARAMETERS_REGEX`, the arms of the `match` over its capture groups and the
    collection the pairs go into are the ones `GitParams.matchAt` / `pairOf` / `toParams` were written against (all
    re-read from src/git_config/mod.rs on every run). -/
theorem params_regex_pinned :
    Generated.GitParams.regexBody = "(?x)(?:'(delta\\.[a-z-]+)=([^']+)'|'(delta\\.[a-z-]+)'='([^']+)')" ∧
    Generated.GitParams.groupArms = [([true, true, false, false], 1, 2), ([false, false, true, true], 3, 4)] ∧
    Generated.GitParams.collectsInto = "HashMap" ∧
    Generated.GitParams.envVarName = "GIT_CONFIG_PARAMETERS" :=
  ⟨rfl, rfl, rfl, rfl⟩

/-- Facts about the generated classes that make the hand-written matcher the regex: neither `=` nor `'` is a key
    character and `'` is the one character a value cannot contain — a greedy run followed by the wrong character
    cannot be repaired by giving characters back, so the maximal runs `matchAt` takes are the only candidates. -/
theorem params_classes_deterministic :
    GitParams.keyChar '=' = false ∧ GitParams.keyChar '\'' = false ∧
    ∀ c, GitParams.valChar c = true ↔ c ≠ '\'' :=
  ⟨GitParams.keyChar_eq, GitParams.keyChar_quote, GitParams.valChar_iff⟩

/-- `parse_config_from_env_var_value` cannot panic, whatever the variable holds: every match of the pattern selects an
    arm of the `match` whose two groups took part (`captures[i]` of an absent group would panic). -/
theorem params_reader_never_panics (s : String) : (GitParams.parsePairs s).isSome = true :=
  GitParams.scan_never_panics s

/-- The pairs delta must find in a variable written by the `-c` entries `es`: those of the main section, in order. -/
def goodPairs (es : List (Bool × GitParams.Entry)) : List (String × String) :=
  (es.filter fun p => GitParams.goodDelta p.2).map fun p =>
    (String.ofList p.2.key, String.ofList (p.2.value.getD []))

theorem allSome_expected (es : List (Bool × GitParams.Entry)) :
    (GitParams.allSome (GitParams.expectedPairs es)).map
      (fun l => l.map fun p => (String.ofList p.1, String.ofList p.2)) = some (goodPairs es) := by
  induction es with
  | nil => rfl
  | cons p ps ih =>
    unfold GitParams.expectedPairs goodPairs at *
    cases h : GitParams.goodDelta p.2 with
    | false => simpa [h] using ih
    | true =>
      simp only [List.filterMap_cons, h, if_true, GitParams.allSome, List.filter_cons, List.map_cons]
      cases hh : GitParams.allSome (List.filterMap (fun p =>
          if GitParams.goodDelta p.2 = true then some (some (p.2.key, p.2.value.getD [])) else none) ps) with
      | none => simp [hh] at ih
      | some l => simp [hh] at ih ⊢; exact ih

/-- `params_parse_format`. For every sequence of `git -c key=value` entries — each written in the format of git ≥ 2.31
    (`'key'='value'`) or of older gits (`'key=value'`), entries separated by a blank — in which every entry is either
    one the pattern accepts (`goodDelta`: key `delta.` + lower-case letters and `-`; a value that is not empty and
    contains neither `'` nor `!`: spaces, `=`, `"`, `#`, non-ASCII text are all fine) or an entry of another section
    that cannot be mistaken for one (`inertForeign`), delta reads exactly the main-section entries, each with exactly
    its key and value, in order. Any number of entries, any lengths. Each excluded kind of entry is read differently
    from git: `params_entries_not_read_as_given`. -/
theorem params_parse_format (es : List (Bool × GitParams.Entry))
    (h : ∀ p ∈ es, GitParams.goodDelta p.2 = true ∨ GitParams.inertForeign p.2 = true) :
    GitParams.parsePairs (String.ofList (GitParams.fmtList es)) = some (goodPairs es) := by
  unfold GitParams.parsePairs
  rw [String.toList_ofList, GitParams.scan_fmtList es h]
  exact allSome_expected es

theorem goodPairs_append (a b : List (Bool × GitParams.Entry)) : goodPairs (a ++ b) = goodPairs a ++ goodPairs b := by
  simp [goodPairs]

/-- `git_c_read_exactly_last_wins`. "A key=value that git passed by `-c` is read as exactly that key and value, later
    occurrences override earlier ones": in a variable written by `-c` entries as above, if `delta.<o>=v` is the last
    entry for that key (`es2` has none), the main-section lookup of option `o` in the map delta builds gives `v` —
    the same entry that wins in git (`git -c delta.tabs=1 -c delta.tabs=2 config delta.tabs` prints 2). -/
theorem git_c_read_exactly_last_wins (es1 es2 : List (Bool × GitParams.Entry)) (f : Bool) (o : Name)
    (v : List Char)
    (h : ∀ p ∈ es1 ++ (f, ⟨("delta." ++ o).toList, some v⟩) :: es2,
      GitParams.goodDelta p.2 = true ∨ GitParams.inertForeign p.2 = true)
    (hg : GitParams.goodDelta ⟨("delta." ++ o).toList, some v⟩ = true)
    (hlast : ∀ p ∈ es2, p.2.key ≠ ("delta." ++ o).toList) :
    ∃ ps, GitParams.paramsOfEnv
        (some (String.ofList (GitParams.fmtList (es1 ++ (f, ⟨("delta." ++ o).toList, some v⟩) :: es2)))) = some ps ∧
      lookup o ps = some (String.ofList v) := by
  refine ⟨GitParams.toParams (goodPairs (es1 ++ (f, ⟨("delta." ++ o).toList, some v⟩) :: es2)),
    by simp only [GitParams.paramsOfEnv, params_parse_format _ h, Option.map_some], ?_⟩
  have e : goodPairs (es1 ++ (f, ⟨("delta." ++ o).toList, some v⟩) :: es2) =
      goodPairs es1 ++ ("delta." ++ o, String.ofList v) :: goodPairs es2 := by
    rw [goodPairs_append]
    simp only [goodPairs, List.filter_cons, hg, if_true, List.map_cons, String.ofList_toList, Option.getD_some]
  rw [e]
  apply GitParams.toParams_last_wins
  intro p hp
  simp only [goodPairs, List.mem_map, List.mem_filter] at hp
  obtain ⟨q, ⟨hq, _⟩, rfl⟩ := hp
  intro heq
  apply hlast q hq
  have := congrArg String.toList heq
  simpa using this

/-- … lifted to the effective value: with a git config object in use and the option not on the command line, the
    effective value of `o` is the reading of the last `-c delta.<o>=v`, whatever the file, the features and the builtin
    defaults say. The variable enters as the text git wrote; `Inputs.params` is what `paramsOfEnv` makes of it. -/
theorem git_c_value_effective (π : List Name) (inp : Inputs) (g : GitCfg)
    (es1 es2 : List (Bool × GitParams.Entry)) (f : Bool) (o : Name) (v : List Char) (r : String)
    (h : ∀ p ∈ es1 ++ (f, ⟨("delta." ++ o).toList, some v⟩) :: es2,
      GitParams.goodDelta p.2 = true ∨ GitParams.inertForeign p.2 = true)
    (hgd : GitParams.goodDelta ⟨("delta." ++ o).toList, some v⟩ = true)
    (hlast : ∀ p ∈ es2, p.2.key ≠ ("delta." ++ o).toList)
    (hpar : GitParams.paramsOfEnv
      (some (String.ofList (GitParams.fmtList (es1 ++ (f, ⟨("delta." ++ o).toList, some v⟩) :: es2)))) =
        some inp.params)
    (hg : finalConfig inp = some g) (he : g.enabled = true) (hcli : lookup o inp.cli = none)
    (ha : envRead (optionType o) (String.ofList v) = some r) :
    effective π inp o = .git r := by
  obtain ⟨ps, hps, hl⟩ := git_c_read_exactly_last_wins es1 es2 f o v h hgd hlast
  rw [hpar] at hps
  cases hps
  have hgp : g.params = inp.params := by
    unfold finalConfig at hg
    simp only [Option.map_eq_some_iff] at hg
    obtain ⟨a, _, rfl⟩ := hg
    rfl
  exact git_config_parameters_override_effective π inp g o _ r hg he hcli (by rw [hgp]; exact hl) ha

/-- `git -c user.name='A B' -c delta.tabs=1 -c delta.hunk-header-line-number-style='red "#067a00"'` (written by an old
    git) `-c diff.renames -c delta.tabs=2k`. -/
def cEntries : List (Bool × GitParams.Entry) :=
  [(true, ⟨"user.name".toList, some "A B".toList⟩),
   (true, ⟨"delta.tabs".toList, some "1".toList⟩),
   (false, ⟨"delta.hunk-header-line-number-style".toList, some "red \"#067a00\"".toList⟩),
   (true, ⟨"diff.renames".toList, none⟩),
   (true, ⟨"delta.tabs".toList, some "2k".toList⟩)]

example : String.ofList (GitParams.fmtList cEntries) =
    "'user.name'='A B' 'delta.tabs'='1' 'delta.hunk-header-line-number-style=red \"#067a00\"' 'diff.renames'= 'delta.tabs'='2k'" := by
  decide
example : ∀ p ∈ cEntries, GitParams.goodDelta p.2 = true ∨ GitParams.inertForeign p.2 = true := by decide
example : GitParams.paramsOfEnv (some (String.ofList (GitParams.fmtList cEntries))) =
    some [("tabs", "2k"), ("hunk-header-line-number-style", "red \"#067a00\""), ("tabs", "1")] := by decide +kernel

/-- The hypotheses of `git_c_value_effective` on `cEntries`: `[delta] tabs = 3` in the file, `-c delta.tabs=1` … `-c
    delta.tabs=2k`: the last one wins, read as git reads it. -/
def cInputs : Inputs :=
  { noInputs with
    params := [("tabs", "2k"), ("hunk-header-line-number-style", "red \"#067a00\""), ("tabs", "1")]
    configFile := some { main := [("tabs", "3")], sections := [], other := [] } }

example : effective sortedNames cInputs "tabs" = .git "2048" :=
  git_c_value_effective sortedNames cInputs
    { enabled := true, params := cInputs.params, file := { main := [("tabs", "3")], sections := [], other := [] } }
    (cEntries.take 4) [] true "tabs" "2k".toList "2048"
    (by decide) (by decide) (by decide) (by decide +kernel) (by decide) rfl (by decide) (by decide)

/-- `params_entries_not_read_as_given`. Each hypothesis of `params_parse_format` is needed — and each is a way in which
    delta reads a `git -c` entry differently from git (confirmed on the real binary; known findings
    `C13-params-*`): a value containing `'` or `!` is cut where git's quoting leaves the quotes, the empty value and a
    key without value (git: `true`) are dropped, so is a key in another letter case; an entry of another section
    whose value starts with `delta.<key>=` is taken for a delta entry. -/
theorem params_entries_not_read_as_given :
    -- a value with `'` (git writes `'\''`): cut at the quote
    (String.ofList (GitParams.fmtList [(true, ⟨"delta.file-modified-label".toList, some "it's".toList⟩)]) =
        "'delta.file-modified-label'='it'\\''s'" ∧
      GitParams.parsePairs "'delta.file-modified-label'='it'\\''s'" = some [("delta.file-modified-label", "it")]) ∧
    -- a value with `!` (git writes `'\!'`): cut there
    (String.ofList (GitParams.fmtList [(true, ⟨"delta.file-modified-label".toList, some "hi! there".toList⟩)]) =
        "'delta.file-modified-label'='hi'\\!' there'" ∧
      GitParams.parsePairs "'delta.file-modified-label'='hi'\\!' there'" = some [("delta.file-modified-label", "hi")]) ∧
    -- the empty value: the entry is dropped
    (String.ofList (GitParams.fmtList [(true, ⟨"delta.pager".toList, some []⟩)]) = "'delta.pager'=''" ∧
      GitParams.parsePairs "'delta.pager'=''" = some []) ∧
    -- a key without value (git: the boolean true), either format: dropped
    (String.ofList (GitParams.fmtList [(true, ⟨"delta.navigate".toList, none⟩)]) = "'delta.navigate'=" ∧
      GitParams.parsePairs "'delta.navigate'=" = some [] ∧ GitParams.parsePairs "'delta.navigate'" = some []) ∧
    -- a key git treats as the same (section and variable names are case-insensitive): dropped
    GitParams.parsePairs "'Delta.Navigate'='true'" = some [] ∧
    -- an entry of another section whose value starts like a delta entry: read as a delta entry
    (String.ofList (GitParams.fmtList [(true, ⟨"user.name".toList, some "delta.file-modified-label=y".toList⟩)]) =
        "'user.name'='delta.file-modified-label=y'" ∧
      GitParams.parsePairs "'user.name'='delta.file-modified-label=y'" = some [("delta.file-modified-label", "y")]) := by
  decide

/-! ### Theme and colour mode: `--light` / `--dark` / `--syntax-theme`, git config, `BAT_THEME`, detection (T11 (ii)) -/

/-- `theme_choice_fatal_iff`. The resolution ends in `fatal("--light and --dark cannot be used together.")` exactly when both
    flags are on the command line, or neither is and the git config (main section or enabled features, looked up
    separately for the two options) turns both on; no other input can stop it (the decision `match` always has an arm). -/
theorem theme_choice_fatal_iff (i : ThemeChoice.In) :
    (ThemeChoice.run i = .fatal ↔
      (i.cliLight = true ∧ i.cliDark = true) ∨
      (i.cliLight = false ∧ i.cliDark = false ∧ i.git.light = some true ∧ i.git.dark = some true)) ∧
    ThemeChoice.run i ≠ .stuck := by
  rw [ThemeChoice.run_spec]
  obtain ⟨cl, cd, ct, ⟨gl, gd, gt⟩, bat, sd, det⟩ := i
  cases cl <;> cases cd <;> rcases gl with _ | _ | _ <;> rcases gd with _ | _ | _ <;>
    simp [ThemeChoice.lightOf, ThemeChoice.darkOf]

/-- `cli_light_dark_final`. `--light` (without `--dark`) on the command line gives light mode, `--dark` dark mode — whatever
    `light` / `dark` in the git config, `BAT_THEME`, the terminal and the chosen theme say: a lower-priority source never
    contradicts the flag, and the git config's `light` / `dark` are not even consulted. -/
theorem cli_light_dark_final (i : ThemeChoice.In) (h : i.cliLight ≠ i.cliDark) :
    ∃ t, ThemeChoice.run i =
      .chosen ⟨i.cliLight, i.cliDark, ThemeChoice.themeOf i⟩ (if i.cliLight then .light else .dark) t := by
  rw [ThemeChoice.run_spec]
  obtain ⟨cl, cd, ct, g, bat, sd, det⟩ := i
  cases cl <;> cases cd <;> simp at h <;>
    simp [ThemeChoice.lightOf, ThemeChoice.darkOf, ThemeChoice.askedMode, ThemeChoice.finalMode]

/-- `syntax_theme_precedence`. When the resolution succeeds, `opt.syntax_theme` is the first of: `--syntax-theme` on the
    command line, `syntax-theme` in the git config (main section, then enabled features), `BAT_THEME`; the theme used is
    that one, and only if there is none the default of the colour mode (documented: command line > gitconfig > BAT_THEME >
    default). -/
theorem syntax_theme_precedence (i : ThemeChoice.In) (s : ThemeChoice.St) (m : ThemeChoice.Mode) (t : String)
    (h : ThemeChoice.run i = .chosen s m t) :
    s.theme = i.cliTheme.or (i.git.theme.or i.bat) ∧
    t = (match s.theme with
         | some x => x
         | none => if m = .light then Generated.ThemeChoice.defaultLight else Generated.ThemeChoice.defaultDark) := by
  rw [ThemeChoice.run_spec] at h
  split at h
  · cases h
  · split at h
    · cases h
    · injection h with hs hm ht
      subst hs hm ht
      refine ⟨rfl, ?_⟩
      simp only [ThemeChoice.finalTheme, ThemeChoice.finalMode]
      cases ThemeChoice.themeOf i with
      | some x => rfl
      | none =>
        rcases ThemeChoice.askedMode i with _ | _ | _ <;> simp

/-- `color_mode_precedence`. When the resolution succeeds the colour mode is decided by the first of: `light` / `dark` (the
    command line if it gave either flag, otherwise the git config), the terminal (only if `should_detect_color_mode` and
    the query answered), the chosen theme (light iff it is one of the listed light themes or its name contains `light`),
    else dark. -/
theorem color_mode_precedence (i : ThemeChoice.In) (s : ThemeChoice.St) (m : ThemeChoice.Mode) (t : String)
    (h : ThemeChoice.run i = .chosen s m t) :
    s.light = (if i.cliLight || i.cliDark then i.cliLight else i.git.light.getD false) ∧
    s.dark = (if i.cliLight || i.cliDark then i.cliDark else i.git.dark.getD false) ∧
    m = (if s.light then .light else if s.dark then .dark
         else match (if i.shouldDetect then i.detected else none) with
           | some d => d
           | none => match s.theme with
             | some x => if ThemeChoice.isLightTheme x then .light else .dark
             | none => .dark) := by
  rw [ThemeChoice.run_spec] at h
  split at h
  · cases h
  · split at h
    · cases h
    · injection h with hs hm ht
      subst hs hm ht
      refine ⟨rfl, rfl, ?_⟩
      simp only [ThemeChoice.finalMode, ThemeChoice.askedMode]
      cases ThemeChoice.lightOf i <;> cases ThemeChoice.darkOf i <;> simp <;>
        (cases (if i.shouldDetect = true then i.detected else none) <;> rfl)

/-- `syntax_theme_from_main_section`. Tie to the sources of C13: with a git config in use, `syntax-theme` set in the main
    section — in the file or by `git -c` — and not on the command line, that value is `opt.syntax_theme`, whatever the
    enabled features and `BAT_THEME` say. -/
theorem syntax_theme_from_main_section (π : List Name) (inp : Inputs) (g : GitCfg) (r : String)
    (bat : Option String) (sd : Bool) (det : Option ThemeChoice.Mode)
    (hg : finalConfig inp = some g) (hcli : lookup "syntax-theme" inp.cli = none)
    (hm : g.getT .optString none "syntax-theme" = some r) :
    ThemeChoice.themeOf (ThemeChoice.inOf π inp bat sd det) = some r := by
  simp [ThemeChoice.themeOf, ThemeChoice.inOf, ThemeChoice.gitVals, ThemeChoice.gitLookup, hg, hcli, hm, firstSome]

/-- `BAT_THEME=GitHub`, `[delta] syntax-theme = Nord, features = a`, `[delta "a"] light = true, syntax-theme = zenburn`:
    theme from the main section, light mode from the feature; with `--dark` the flag wins. -/
def themeInputs : Inputs :=
  { noInputs with
    configFile := some
      { main := [("syntax-theme", "Nord"), ("features", "a")],
        sections := [("a", [("light", "true"), ("syntax-theme", "zenburn")])], other := [] } }

example : ThemeChoice.run (ThemeChoice.inOf sortedNames themeInputs (some "GitHub") false none) =
    .chosen ⟨true, false, some "Nord"⟩ .light "Nord" := by decide
example : ThemeChoice.run (ThemeChoice.inOf sortedNames { themeInputs with cli := [("dark", "true")] } (some "GitHub")
    true (some .light)) = .chosen ⟨false, true, some "Nord"⟩ .dark "Nord" := by decide
-- nothing but BAT_THEME: its theme, and the mode inferred from it; nothing at all: dark and the dark default
example : ThemeChoice.run (ThemeChoice.inOf sortedNames noInputs (some "Solarized (light)") false none) =
    .chosen ⟨false, false, some "Solarized (light)"⟩ .light "Solarized (light)" ∧
    ThemeChoice.run (ThemeChoice.inOf sortedNames noInputs none false none) =
    .chosen ⟨false, false, none⟩ .dark "Monokai Extended" := by decide
-- `[delta] light = true` with a lower-priority feature saying `dark = true`: an error, not the main section's choice
example : ThemeChoice.run (ThemeChoice.inOf sortedNames
    { noInputs with configFile := some { main := [("light", "true"), ("features", "a")],
                                         sections := [("a", [("dark", "true")])], other := [] } } none false none) = .fatal := by
  decide

/-! ### `uninterpretedOptions`, shrunk (T11 (iii)) -/

/-- The options among `uninterpretedOptions` whose statements `ThemeChoice` now interprets. -/
def themeOptions : List Name := ["dark", "light", "syntax-theme"]

/-- The statements of `set_options` that write `light` / `dark` / `syntax-theme` are the `BAT_THEME` fill and the
    light / dark / syntax-theme call, both before the main `set_options!` (which does not list the three options) — the
    two statements `ThemeChoice.initial` and `ThemeChoice.steps` model; what is left uninterpreted is the `navigate`
    environment fall-back, `opt.features`, `whitespace-error-style` and the `true-color` alias. -/
theorem uninterpreted_options_shrunk :
    (stmts.filter fun s => s.writes.any themeOptions.contains).map (fun s => (s.phase, s.kind)) =
      [("pre", "fill-if-none"), ("pre", "sub-macro")] ∧
    (themeOptions.all fun o => !Generated.Options.setOptionsList.contains o) = true ∧
    (uninterpretedOptions.filter fun o => !themeOptions.contains o) =
      ["navigate", "features", "features", "whitespace-error-style", "true-color"] := by
  decide

/-- `post_processing_respects_sources`, restated for `light` / `dark` / `syntax-theme` (which the theorem above it leaves
    out): whenever the resolution succeeds, a value given on the command line is final, and — the command line being
    silent about the option (for `light` / `dark`: about both) — so is the value the git config gives (main section, then
    the enabled features); only an option no source sets is filled in (`BAT_THEME`; the default of the colour mode). -/
theorem post_processing_respects_sources_theme (i : ThemeChoice.In) (s : ThemeChoice.St) (m : ThemeChoice.Mode)
    (t : String) (h : ThemeChoice.run i = .chosen s m t) :
    (∀ x, i.cliTheme = some x → s.theme = some x) ∧
    (i.cliLight = true → s.light = true) ∧ (i.cliDark = true → s.dark = true) ∧
    (i.cliTheme = none → ∀ x, i.git.theme = some x → s.theme = some x) ∧
    (i.cliLight = false → i.cliDark = false → ∀ b, i.git.light = some b → s.light = b) ∧
    (i.cliLight = false → i.cliDark = false → ∀ b, i.git.dark = some b → s.dark = b) ∧
    (i.cliTheme = none → i.git.theme = none → s.theme = i.bat) := by
  obtain ⟨hl, hd, _⟩ := color_mode_precedence i s m t h
  obtain ⟨ht, _⟩ := syntax_theme_precedence i s m t h
  refine ⟨?_, ?_, ?_, ?_, ?_, ?_, ?_⟩
  · intro x hx; simp [ht, hx]
  · intro hx; simp [hl, hx]
  · intro hx; simp [hd, hx]
  · intro hc x hx; simp [ht, hc, hx]
  · intro h1 h2 b hb; simp [hl, h1, h2, hb]
  · intro h1 h2 b hb; simp [hd, h1, h2, hb]
  · intro h1 h2; simp [ht, h1, h2]

end C13
