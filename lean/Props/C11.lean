import Proofs.Machine.Run
import Proofs.Machine.Streaming
import Proofs.InputPath
import Proofs.ViewSites
/-!
C11 — output is streamed: bounded lag behind the input, never revised.

About `Machine.step`/`runFrom` (the model of the `consume` loop): `out` is what has reached the
writer after the lines consumed so far.
-/
namespace C11
open Machine Headers

/-- `out_monotone`: an input line can only append to what has been written. -/
theorem out_monotone {cfg : Cfg} {m m' : M} {l : L} (g : Good m) (e : step cfg m l = .ok m') :
    ∃ more, m'.out = m.out ++ more := (step_spec e g).2.2.1

/-- `never_revised`: what has been written after a prefix of the input is a prefix of what has been
written after any longer prefix … -/
theorem never_revised {cfg : Cfg} {xs ys : List L} {m1 m2 : M}
    (e1 : runFrom cfg {} xs = .ok m1) (e2 : runFrom cfg {} (xs ++ ys) = .ok m2) :
    ∃ more, m2.out = m1.out ++ more := by
  rw [runFrom_append, e1] at e2
  exact (runFrom_spec ys e2 (runFrom_spec xs e1 good_init).1).2.2.1

/-- … and of what delta writes for that prefix on its own (end of input only flushes). -/
theorem prefix_of_own_output {cfg : Cfg} {xs : List L} {m1 mf : M}
    (e1 : runFrom cfg {} xs = .ok m1) (ef : finish cfg m1 = .ok mf) :
    ∃ more, mf.out = m1.out ++ more := by
  have g1 := (runFrom_spec xs e1 good_init).1
  obtain ⟨_, ⟨new, hn⟩, ht⟩ := finish_spec ef g1
  refine ⟨m1.buf ++ m1.minus.map HLine.row ++ m1.plus.map HLine.row ++ new, ?_⟩
  rw [← ht, hn]; simp [timeline, List.append_assoc]

/-- `hunk_line_emits`: after a line handled inside a hunk nothing painted is left in the output
buffer — the only rows not yet written are the lines of the open run of removed/added lines. -/
theorem hunk_line_emits {cfg : Cfg} {m m' : M} {l : L} {b : Bool} (g : Good m)
    (hs : isHunkState m.st = true) (e : handleHunkLine cfg m l = .ok (b, m')) :
    m'.buf = [] ∧ timeline m' = m'.out ++ m'.minus.map HLine.row ++ m'.plus.map HLine.row := by
  rcases handleHunkLine_spec e g with ⟨_, _, h⟩ | ⟨_, _, s⟩
  · rw [hs] at h; cases h
  · exact ⟨s.buf, by simp [timeline, s.buf]⟩

/-- `context_line_flushes`: in the state reached after an unchanged line (and in every other state
that does not belong to an open run of changed lines) both line buffers are empty: everything up
to and including that line is on its way out. -/
theorem context_line_flushes {cfg : Cfg} {ls : List L} {m : M} (e : runFrom cfg {} ls = .ok m)
    (hz : ∃ dt, m.st = .hunkZero dt) : m.minus = [] ∧ m.plus = [] := by
  obtain ⟨dt, h⟩ := hz
  exact (runFrom_spec ls e good_init).1.quiet (by rw [h]; rfl)

/-- `lag_bounded`: at every point of every input the open run holds at most
`line-buffer-size + 1` removed and as many added lines. -/
theorem lag_bounded {cfg : Cfg} {ls : List L} {m : M} (e : runFrom cfg {} ls = .ok m) :
    m.minus.length ≤ cfg.bufSize + 1 ∧ m.plus.length ≤ cfg.bufSize + 1 :=
  runFrom_lag ls e good_init ⟨by simp, by simp⟩

/-- **`inside_hunk_all_written`** (whole runs): for every configuration and every prefix of every
input — every point at which the producer may pause — if the prefix ends inside a hunk (the state is
one of the hunk-line states), then nothing painted is waiting in the output buffer: the rows not yet
written are exactly the open run of removed and added lines, and that run holds at most
`line-buffer-size + 1` lines of each kind. (`Proofs/Machine/Streaming.lean`: every handler ends
outside the hunk-line states, or ends with `painter.emit`, or leaves state and buffer alone.) -/
theorem inside_hunk_all_written {cfg : Cfg} {ls : List L} {m : M} (e : runFrom cfg {} ls = .ok m)
    (hb : isHunkBody m.st = true) :
    timeline m = m.out ++ m.minus.map HLine.row ++ m.plus.map HLine.row ∧
      m.minus.length ≤ cfg.bufSize + 1 ∧ m.plus.length ≤ cfg.bufSize + 1 :=
  ⟨(Machine.inside_hunk_all_written e hb).2, lag_bounded e⟩

/-- … and after an unchanged line nothing at all is held back: everything rendered so far has been
written. -/
theorem after_context_line_all_written {cfg : Cfg} {ls : List L} {m : M} (e : runFrom cfg {} ls = .ok m)
    (hz : ∃ dt, m.st = .hunkZero dt) : timeline m = m.out := by
  obtain ⟨dt, h⟩ := hz
  obtain ⟨hm, hp⟩ := context_line_flushes e ⟨dt, h⟩
  have := (Machine.inside_hunk_all_written e (by rw [h]; rfl)).2
  simpa [hm, hp] using this

private def mkL (s : String) : L :=
  { raw := s.toList, text := s.toList, graphemes := [], commitRe := false, blame := false, grep := 0, submodule := none }

/-- the hypotheses are met by ordinary prefixes, with a non-empty open run: after `-a`, `-b` two
rows are held and everything before them (header rows, the context line) is out -/
example : (match runFrom {} {} (["diff --git a/x b/x", "--- a/x", "+++ b/x", "@@ -1,3 +1,2 @@", " ctx", "-a", "-b"].map mkL) with
    | .ok m => isHunkBody m.st && m.minus.length == 2 && m.buf.isEmpty && m.out.length ≥ 3
    | .error _ => false) = true := by decide

/-- outside a hunk the buffer may hold painted rows for one more line: at a `diff` line that ends a
run of changed lines the run is painted but written with the next emission (the statement is about
prefixes that end inside a hunk) -/
example : (match runFrom {} {} (["diff --git a/x b/x", "--- a/x", "+++ b/x", "@@ -1,2 +1,1 @@", " ctx", "-a", "diff --git a/y b/y"].map mkL) with
    | .ok m => !isHunkBody m.st && m.buf.length == 1
    | .error _ => false) = true := by decide

/-- Merge-conflict regions are the exception the statement does not mention: their lines are kept
in separate buffers until the closing marker (by design; recorded as a known finding). In the
model: a stored conflict line changes neither the timeline nor the output. -/
theorem conflict_region_held {cfg : Cfg} {m m' : M} {l : L} {c : MCCommit} {mp : MergeParents} {k : RowKind}
    (e : storeLine cfg m l c mp k = .ok m') : timeline m' = timeline m ∧ m'.out = m.out := by
  unfold storeLine at e
  split at e
  · cases e
  · simp only at e
    split at e <;> (cases e; exact ⟨rfl, rfl⟩)

/-! ## The input side (session 4, T14): no line waits in the reader stack

`DeltaModel/InputPath.lean`: a blocking byte pipe with arbitrary chunking and the consumer program *compiled from the
generated description* of what `run_app` puts between stdin and `delta()` (`Generated/InputPath.lean`, from
src/main.rs, src/delta.rs, the bytelines crate). -/

/-- the reader stack of the current source is the plain one: no read of the input happens before `delta()` is
called, in the stdin branch and in the subcommand branch of `run_app`; the reader is handed to nothing but `delta()`;
the consume loop takes one line per iteration with `lines.next()` and touches `lines` nowhere else; the line reader
splits at `\n`. (With the seeded change C11-w6-01 applied the generated description compiles to
`sniffProg 8000` and this is false.) -/
theorem generated_input_path_is_plain :
    InputPath.stdinProg.eager = none ∧ InputPath.subcmdProg.eager = none ∧
    InputPath.stdinProg.delim = 10 ∧ InputPath.subcmdProg.delim = 10 ∧
    Generated.InputPath.stdinOtherConsumers = [] ∧ Generated.InputPath.subcmdOtherConsumers = [] ∧
    Generated.InputPath.consumeLinesCalls = ["next"] := by decide

/-- **`line_consumed_as_soon_as_written`** (`InputPath.ConsumedAsWritten`, spelled out in `Proofs/InputPath.lean`): for
the reader stack of the current source (stdin branch: `git diff | delta`, delta as git's pager), for every input and
every chunking of it — the producer writes chunks of any size at any time, every `read` of the consumer returns any
number ≥ 1 of the bytes available, consumer steps interleave with the writes in any order — whenever the producer
pauses, the consumer comes to rest blocked in `read` with nothing left in the pipe or in its buffer, having handed to
the state machine exactly the complete lines of the bytes written so far; the unterminated rest is the beginning of the
next line (handed on as the last line when the pipe is closed). No line waits in the reader stack. -/
theorem line_consumed_as_soon_as_written (evs : List InputPath.Ev) (hint : Nat → Nat) :
    InputPath.ConsumedAsWritten InputPath.stdinProg evs hint :=
  InputPath.consumed_as_written generated_input_path_is_plain.1 evs hint

/-- … and the same for the subcommand branch (`delta a b`, `delta git …`, `delta rg …`: the child's stdout through a
`BufReader`). -/
theorem line_consumed_as_soon_as_written_subcommand (evs : List InputPath.Ev) (hint : Nat → Nat) :
    InputPath.ConsumedAsWritten InputPath.subcmdProg evs hint :=
  InputPath.consumed_as_written generated_input_path_is_plain.2.1 evs hint

/-- non-vacuity: `-a⏎-b⏎+` written as `-a`, `⏎-`, `b⏎+` with consumer steps in between and odd read sizes: at the pause
two lines have been handed on (`-a`, `-b` as the state machine receives them) and `+` is the beginning of the third -/
example :
    let p := InputPath.stdinProg
    let s := InputPath.exec p (InputPath.init p) [.write [45, 97], .cons 1, .write [10, 45], .cons 3, .write [98, 10, 43]]
    let s' := InputPath.settle p (fun k => k % 2 + 1) (InputPath.fuelFor s) s
    s'.handed = [[45, 97, 10], [45, 98, 10]] ∧ s'.cur = [43] ∧ InputPath.linesToMachine s' = [[45, 97], [45, 98]] ∧
      InputPath.cstep p 1 s' = none := by decide

/-- **with a `take(n).read_to_end` layer in front the statement fails** — the seeded shape (n = 8000): after `a⏎b⏎`
the consumer is blocked in `read`, two complete lines have been written, none has been handed on. -/
theorem line_consumed_fails_with_sniff :
    ¬ ∀ evs hint, InputPath.ConsumedAsWritten (InputPath.sniffProg 8000) evs hint := by
  intro h
  have := (h [.write [97, 10, 98, 10]] (fun _ => 8192)).2.2.2.2.2.1
  revert this
  decide

/-- the same as plain facts: the blocked state, its empty list of lines, the two lines written -/
example :
    let p := InputPath.sniffProg 8000
    let s := InputPath.exec p (InputPath.init p) [.write [97, 10, 98, 10], .cons 8192, .cons 1]
    let s' := InputPath.settle p (fun _ => 8192) (InputPath.fuelFor s) s
    InputPath.cstep p 1 s' = none ∧ s'.handed = [] ∧ s'.closed = false ∧
      InputPath.completeLines 10 s'.sent = [[97, 10], [98, 10]] := by decide

/-- `eager_read_holds_every_line_back` (general form of the counterexample): a reader stack that starts with
`take(N).read_to_end(..)` has handed nothing to the state machine as long as fewer than N bytes have been written and
the pipe is open — for every schedule, however many complete lines those bytes contain. Hypotheses: no `close` among the
events (end of input ends the eager read), fewer than N bytes written (after N bytes the line loop starts). -/
theorem eager_read_holds_every_line_back {p : InputPath.Prog} {N : Nat} (hp : p.eager = some (.upTo N))
    (evs : List InputPath.Ev) (hne : ∀ ev ∈ evs, ev ≠ .close)
    (hlt : (InputPath.exec p (InputPath.init p) evs).sent.length < N) :
    (InputPath.exec p (InputPath.init p) evs).handed = [] :=
  (InputPath.eager_read_hands_nothing hp evs hne hlt).1

example : (InputPath.sniffProg 8000).eager = some (.upTo 8000) ∧
    (InputPath.exec (InputPath.sniffProg 8000) (InputPath.init (InputPath.sniffProg 8000)) [.write [97, 10], .cons 5, .write [98, 10], .cons 1]).sent.length = 4 := by
  decide

/-- **`streamed_over_bytes_received`** — the property over *bytes received so far*: for every configuration, every
input, every chunking and schedule, with the pipe still open: when the producer pauses, the lines the state machine has
been given (`linesToMachine`: as `bytelines` strips them; `toL` stands for `ingest_line`, any function) are exactly the
complete lines among the bytes written so far, the consumer is blocked in `read`, and if that point lies inside a hunk
nothing painted is waiting in the output buffer: the rows not yet written are exactly the open run of removed / added
lines, at most `line-buffer-size + 1` of each. (`line_consumed_as_soon_as_written` composed with
`inside_hunk_all_written` / `lag_bounded`.) Hypothesis `hopen`: after end of input the last unterminated line is handed
on as well and `finish` flushes (`prefix_of_own_output`). -/
theorem streamed_over_bytes_received {cfg : Cfg} (toL : List Nat → L) (evs : List InputPath.Ev) (hint : Nat → Nat) {m : M}
    (hopen : (InputPath.exec InputPath.stdinProg (InputPath.init InputPath.stdinProg) evs).closed = false)
    (e : runFrom cfg {} ((InputPath.linesToMachine (InputPath.settle InputPath.stdinProg hint
          (InputPath.fuelFor (InputPath.exec InputPath.stdinProg (InputPath.init InputPath.stdinProg) evs))
          (InputPath.exec InputPath.stdinProg (InputPath.init InputPath.stdinProg) evs))).map toL) = .ok m)
    (hb : isHunkBody m.st = true) :
    let s := InputPath.exec InputPath.stdinProg (InputPath.init InputPath.stdinProg) evs
    let s' := InputPath.settle InputPath.stdinProg hint (InputPath.fuelFor s) s
    InputPath.linesToMachine s' = (InputPath.completeLines 10 s.sent).map InputPath.stripEol ∧
      (∀ n, InputPath.cstep InputPath.stdinProg n s' = none) ∧
      timeline m = m.out ++ m.minus.map HLine.row ++ m.plus.map HLine.row ∧
      m.minus.length ≤ cfg.bufSize + 1 ∧ m.plus.length ≤ cfg.bufSize + 1 := by
  intro s s'
  have h := line_consumed_as_soon_as_written evs hint
  obtain ⟨hblk, _, _, _, _, ho, _⟩ := h
  obtain ⟨_, hh, _⟩ := ho hopen
  refine ⟨?_, hblk, inside_hunk_all_written e hb⟩
  show (InputPath.settle _ _ _ _).handed.map _ = _
  rw [hh, generated_input_path_is_plain.2.2.1]

/-! ## Both views (session 4, T14 iii)

The machine model has no view parameter: `inside_hunk_all_written`, `lag_bounded`, … speak about *when* rows are emitted
and how many lines are held, not about what a row looks like. That this is right for `--side-by-side` too is a statement
about where the code reads the switch: `Generated/ViewSites.lean` (tools/extractors/viewsites.py) lists every read of
`config.side_by_side` in the streaming path (src/delta.rs, src/handlers/*.rs, src/paint.rs, src/features/side_by_side.rs,
line_numbers.rs, wrapping.rs) and, for every function there, whether it emits, writes to a writer, inspects / changes the
line buffers or tests `line_buffer_size`. -/

/-- **`view_does_not_change_emission_points`**: (1) the generated inventory passes `ViewSites.inventoryOk`: the two arms
of every `if config.side_by_side { … } else { … }` have the same effect flags — they may fill the output buffer and do
nothing else: no `emit`, no write to a writer, no access to the line buffers, no test of the buffer size, no `return`;
no function that reads the switch, and no function of features/side_by_side.rs, emits, writes to a writer, touches the
line buffers or tests the buffer size; (2) hence, for every sequence of calls of functions of the streaming path and every
state, the streaming-relevant state of the painter (something in the output buffer?, number of emissions, number of
line-buffer operations) after the calls is the same in unified and in side-by-side mode. The per-line observation hook run
with `--side-by-side` is compared with the machine model's predictions in c11.py
(`machine.run:side-by-side-emission-points`). -/
theorem view_does_not_change_emission_points :
    ViewSites.inventoryOk Generated.ViewSites.viewBranches Generated.ViewSites.fnFacts = true ∧
    ∀ (calls : List (String × String)) (ps : ViewSites.PS),
      ViewSites.runCalls .unified calls ps = ViewSites.runCalls .sideBySide calls ps :=
  have h : ViewSites.inventoryOk Generated.ViewSites.viewBranches Generated.ViewSites.fnFacts = true := by decide
  ⟨h, ViewSites.runCalls_view_indep (ViewSites.arms_of_inventoryOk h)⟩

/-- the inventory is not empty: three view branches (Painter::new, paint_zero_line, paint_minus_and_plus_lines), all in
src/paint.rs, and the emission points / the buffer-size test are where the machine model has them
(`Painter::emit` writes, `handle_hunk_line` tests the size) -/
example : Generated.ViewSites.viewBranches.map (fun b => (b.file, b.fn)) =
      [("paint.rs", "new"), ("paint.rs", "paint_zero_line"), ("paint.rs", "paint_minus_and_plus_lines")] ∧
    (ViewSites.effOf .sideBySide "handlers/hunk.rs" "handle_hunk_line").bufferSize = true ∧
    (ViewSites.effOf .sideBySide "paint.rs" "emit").writer = true ∧
    ViewSites.runCalls .sideBySide [("paint.rs", "paint_minus_and_plus_lines"), ("paint.rs", "emit")] {} =
      { bufNonEmpty := true, emissions := 1, lineBufferOps := 0 } := by decide

/-- `inventoryOk` is not vacuous: the shape of the seeded change C11-w5-01 (a predicate in src/paint.rs that reads the
switch and looks at the line buffers and the buffer size) is rejected -/
example : ViewSites.inventoryOk [] [Generated.ViewSites.FnFact.mk "paint.rs" "line_buffers_are_full" 1
    (Generated.ViewSites.Eff.mk false false false true true false)] = false := by
  decide

end C11
