import Proofs.Machine.Run
import Proofs.Machine.Streaming
/-!
C11 — output is streamed: bounded lag behind the input, never revised.

About `Machine.step`/`runFrom` (the model of the `consume` loop): `out` is what has reached the
writer after the lines consumed so far.
-/
namespace C11
open Machine Headers

/-- `out_monotone`: an input line can only append to what has been written. -/
theorem out_monotone {cfg : Cfg} {m m' : M} {l : L} (g : Good m) (e : step cfg m l = .ok m') :
    ∃ more, m'.out = m.out ++ more := (step_spec e g).2.2.1

/-- `never_revised`: what has been written after a prefix of the input is a prefix of what has been
written after any longer prefix … -/
theorem never_revised {cfg : Cfg} {xs ys : List L} {m1 m2 : M}
    (e1 : runFrom cfg {} xs = .ok m1) (e2 : runFrom cfg {} (xs ++ ys) = .ok m2) :
    ∃ more, m2.out = m1.out ++ more := by
  rw [runFrom_append, e1] at e2
  exact (runFrom_spec ys e2 (runFrom_spec xs e1 good_init).1).2.2.1

/-- … and of what delta writes for that prefix on its own (end of input only flushes). -/
theorem prefix_of_own_output {cfg : Cfg} {xs : List L} {m1 mf : M}
    (e1 : runFrom cfg {} xs = .ok m1) (ef : finish cfg m1 = .ok mf) :
    ∃ more, mf.out = m1.out ++ more := by
  have g1 := (runFrom_spec xs e1 good_init).1
  obtain ⟨_, ⟨new, hn⟩, ht⟩ := finish_spec ef g1
  refine ⟨m1.buf ++ m1.minus.map HLine.row ++ m1.plus.map HLine.row ++ new, ?_⟩
  rw [← ht, hn]; simp [timeline, List.append_assoc]

/-- `hunk_line_emits`: after a line handled inside a hunk nothing painted is left in the output
buffer — the only rows not yet written are the lines of the open run of removed/added lines. -/
theorem hunk_line_emits {cfg : Cfg} {m m' : M} {l : L} {b : Bool} (g : Good m)
    (hs : isHunkState m.st = true) (e : handleHunkLine cfg m l = .ok (b, m')) :
    m'.buf = [] ∧ timeline m' = m'.out ++ m'.minus.map HLine.row ++ m'.plus.map HLine.row := by
  rcases handleHunkLine_spec e g with ⟨_, _, h⟩ | ⟨_, _, s⟩
  · rw [hs] at h; cases h
  · exact ⟨s.buf, by simp [timeline, s.buf]⟩

/-- `context_line_flushes`: in the state reached after an unchanged line (and in every other state
that does not belong to an open run of changed lines) both line buffers are empty: everything up
to and including that line is on its way out. -/
theorem context_line_flushes {cfg : Cfg} {ls : List L} {m : M} (e : runFrom cfg {} ls = .ok m)
    (hz : ∃ dt, m.st = .hunkZero dt) : m.minus = [] ∧ m.plus = [] := by
  obtain ⟨dt, h⟩ := hz
  exact (runFrom_spec ls e good_init).1.quiet (by rw [h]; rfl)

/-- `lag_bounded`: at every point of every input the open run holds at most
`line-buffer-size + 1` removed and as many added lines. -/
theorem lag_bounded {cfg : Cfg} {ls : List L} {m : M} (e : runFrom cfg {} ls = .ok m) :
    m.minus.length ≤ cfg.bufSize + 1 ∧ m.plus.length ≤ cfg.bufSize + 1 :=
  runFrom_lag ls e good_init ⟨by simp, by simp⟩

/-- **`inside_hunk_all_written`** (whole runs): for every configuration and every prefix of every
input — every point at which the producer may pause — if the prefix ends inside a hunk (the state is
one of the hunk-line states), then nothing painted is waiting in the output buffer: the rows not yet
written are exactly the open run of removed and added lines, and that run holds at most
`line-buffer-size + 1` lines of each kind. (`Proofs/Machine/Streaming.lean`: every handler ends
outside the hunk-line states, or ends with `painter.emit`, or leaves state and buffer alone.) -/
theorem inside_hunk_all_written {cfg : Cfg} {ls : List L} {m : M} (e : runFrom cfg {} ls = .ok m)
    (hb : isHunkBody m.st = true) :
    timeline m = m.out ++ m.minus.map HLine.row ++ m.plus.map HLine.row ∧
      m.minus.length ≤ cfg.bufSize + 1 ∧ m.plus.length ≤ cfg.bufSize + 1 :=
  ⟨(Machine.inside_hunk_all_written e hb).2, lag_bounded e⟩

/-- … and after an unchanged line nothing at all is held back: everything rendered so far has been
written. -/
theorem after_context_line_all_written {cfg : Cfg} {ls : List L} {m : M} (e : runFrom cfg {} ls = .ok m)
    (hz : ∃ dt, m.st = .hunkZero dt) : timeline m = m.out := by
  obtain ⟨dt, h⟩ := hz
  obtain ⟨hm, hp⟩ := context_line_flushes e ⟨dt, h⟩
  have := (Machine.inside_hunk_all_written e (by rw [h]; rfl)).2
  simpa [hm, hp] using this

private def mkL (s : String) : L :=
  { raw := s.toList, text := s.toList, graphemes := [], commitRe := false, blame := false, grep := 0, submodule := none }

/-- the hypotheses are met by ordinary prefixes, with a non-empty open run: after `-a`, `-b` two
rows are held and everything before them (header rows, the context line) is out -/
example : (match runFrom {} {} (["diff --git a/x b/x", "--- a/x", "+++ b/x", "@@ -1,3 +1,2 @@", " ctx", "-a", "-b"].map mkL) with
    | .ok m => isHunkBody m.st && m.minus.length == 2 && m.buf.isEmpty && m.out.length ≥ 3
    | .error _ => false) = true := by decide

/-- outside a hunk the buffer may hold painted rows for one more line: at a `diff` line that ends a
run of changed lines the run is painted but written with the next emission (the statement is about
prefixes that end inside a hunk) -/
example : (match runFrom {} {} (["diff --git a/x b/x", "--- a/x", "+++ b/x", "@@ -1,2 +1,1 @@", " ctx", "-a", "diff --git a/y b/y"].map mkL) with
    | .ok m => !isHunkBody m.st && m.buf.length == 1
    | .error _ => false) = true := by decide

/-- Merge-conflict regions are the exception the statement does not mention: their lines are kept
in separate buffers until the closing marker (by design; recorded as a known finding). In the
model: a stored conflict line changes neither the timeline nor the output. -/
theorem conflict_region_held {cfg : Cfg} {m m' : M} {l : L} {c : MCCommit} {mp : MergeParents} {k : RowKind}
    (e : storeLine cfg m l c mp k = .ok m') : timeline m' = timeline m ∧ m'.out = m.out := by
  unfold storeLine at e
  split at e
  · cases e
  · simp only at e
    split at e <;> (cases e; exact ⟨rfl, rfl⟩)

end C11
