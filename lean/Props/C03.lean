import Proofs.Machine.Total
import DeltaModel.Generated.PanicInventory
import DeltaModel.PanicBaseline
/-!
C03 — delta never crashes or hangs, whatever bytes and options it is given.

The model keeps every Rust panic point of the line state machine (slices, indexing, `unwrap`,
`delta_unreachable`) as an explicit error branch. `machine_total`: none of them is reachable, for
every configuration and every input. (False on the pinned tree before the `fix:` commits 9e2fda3,
ac13fa5, 20166a8, 19be116, 26f1e1a: the model produced the witnesses `@@ foo @@`, an over-long
number, `diff --git ` without paths, `--- "`, a combined-diff line with a multi-byte prefix, a
`+++ ` line met in a submodule state.) The loops of the model are structural recursions over the
input, so the run also terminates. Panic freedom of wrapping / alignment / ANSI parsing / line
numbers / grep / blame is stated in the files of C07, C06, C08, C05, C16, C17.
-/
namespace C03
open Machine Headers

/-- `machine_total`: for all configurations and all inputs the run of the line state machine
completes without reaching a panic / `delta_unreachable` branch. -/
theorem machine_total (cfg : Cfg) (ls : List L) : ∃ m, run cfg ls = .ok m := run_total cfg ls

/-- every step from a well-formed state is a step to a well-formed state, without error: the
invariant that makes the `delta_unreachable` arms of `new_line_state` / `n_parents` and the
`len() - 1` of the hunk header unreachable -/
theorem step_never_panics (cfg : Cfg) (m : M) (l : L) (w : wfState m.st = true) :
    ∃ m', step cfg m l = .ok m' ∧ wfState m'.st = true := step_total cfg m l w

example : wfState ({} : M).st = true := rfl

/-- header parsing is total (these functions have no error branch left): a line that only looks
like a hunk header is simply not one -/
theorem bad_hunk_headers_rejected :
    parseHunkHeader "@@ foo @@".toList = none ∧
    parseHunkHeader "@@ -1 +99999999999999999999999 @@".toList = none := by
  constructor <;> decide

/-- `diff --git ` without paths: no path, no panic -/
theorem diff_git_without_paths : repeatedFilePath "diff --git ".toList [] = none := by decide

/-- a path that is a single double quote is left alone -/
theorem single_quote_path : removeSurroundingQuotes ['"'] = ['"'] := by decide

/-- the prefix columns of a combined-diff line are never cut inside a character -/
theorem byte_prefix_is_prefix (n : Nat) (s : Str) : ∃ rest, s = bytePrefix n s ++ rest := by
  induction s generalizing n with
  | nil => exact ⟨[], by cases n <;> simp [bytePrefix]⟩
  | cons c cs ih =>
    cases n with
    | zero => exact ⟨c :: cs, by simp [bytePrefix]⟩
    | succ n =>
      simp only [bytePrefix]
      split
      · obtain ⟨rest, hr⟩ := ih (n + 1 - c.utf8Size)
        exact ⟨rest, by rw [List.cons_append, ← hr]⟩
      · exact ⟨c :: cs, by simp⟩

/-- `inventory_reviewed`: the panic points found in the render-path sources on this run are
exactly the reviewed ones (a new `unwrap`, index expression, `panic!` … breaks this). -/
theorem inventory_reviewed : Generated.PanicInventory.counts = PanicBaseline.counts := by decide

end C03
