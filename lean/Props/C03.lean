import Proofs.Machine.Total
import DeltaModel.Generated.PanicInventory
import DeltaModel.PanicBaseline
import Props.C05
import Props.C06
import Props.C07
import Props.C08
import Props.C15
import Props.C16
import Props.C17
/-!
C03 — delta never crashes or hangs, whatever bytes and options it is given.

The model keeps every Rust panic point of the line state machine (slices, indexing, `unwrap`,
`delta_unreachable`) as an explicit error branch. `machine_total`: none of them is reachable, for
every configuration and every input. (False on the pinned tree before the `fix:` commits 9e2fda3,
ac13fa5, 20166a8, 19be116, 26f1e1a: the model produced the witnesses `@@ foo @@`, an over-long
number, `diff --git ` without paths, `--- "`, a combined-diff line with a multi-byte prefix, a
`+++ ` line met in a submodule state.) The loops of the model are structural recursions over the
input, so the run also terminates. Panic freedom of wrapping / alignment / ANSI parsing / line
numbers / grep / blame is proved in the files of C07, C06, C08, C05, C16, C17 and collected at the
end of this file (`Components`): those theorems are obligations of this check too, so a change that
makes one of these components panic or loop breaks C03's proof as well as the component's own.
-/
namespace C03
open Machine Headers

/-- `machine_total`: for all configurations and all inputs the run of the line state machine
completes without reaching a panic / `delta_unreachable` branch. -/
theorem machine_total (cfg : Cfg) (ls : List L) : ∃ m, run cfg ls = .ok m := run_total cfg ls

/-- every step from a well-formed state is a step to a well-formed state, without error: the
invariant that makes the `delta_unreachable` arms of `new_line_state` / `n_parents` and the
`len() - 1` of the hunk header unreachable -/
theorem step_never_panics (cfg : Cfg) (m : M) (l : L) (w : wfState m.st = true) :
    ∃ m', step cfg m l = .ok m' ∧ wfState m'.st = true := step_total cfg m l w

example : wfState ({} : M).st = true := rfl

/-- header parsing is total (these functions have no error branch left): a line that only looks
like a hunk header is simply not one -/
theorem bad_hunk_headers_rejected :
    parseHunkHeader "@@ foo @@".toList = none ∧
    parseHunkHeader "@@ -1 +99999999999999999999999 @@".toList = none := by
  constructor <;> decide

/-- `diff --git ` without paths: no path, no panic -/
theorem diff_git_without_paths : repeatedFilePath "diff --git ".toList [] = none := by decide

/-- a path that is a single double quote is left alone -/
theorem single_quote_path : removeSurroundingQuotes ['"'] = ['"'] := by decide

/-- the prefix columns of a combined-diff line are never cut inside a character -/
theorem byte_prefix_is_prefix (n : Nat) (s : Str) : ∃ rest, s = bytePrefix n s ++ rest := by
  induction s generalizing n with
  | nil => exact ⟨[], by cases n <;> simp [bytePrefix]⟩
  | cons c cs ih =>
    cases n with
    | zero => exact ⟨c :: cs, by simp [bytePrefix]⟩
    | succ n =>
      simp only [bytePrefix]
      split
      · obtain ⟨rest, hr⟩ := ih (n + 1 - c.utf8Size)
        exact ⟨rest, by rw [List.cons_append, ← hr]⟩
      · exact ⟨c :: cs, by simp⟩

/-- `inventory_reviewed`: the panic points found in the render-path sources on this run are
exactly the reviewed ones (a new `unwrap`, index expression, `panic!` … breaks this). -/
theorem inventory_reviewed : Generated.PanicInventory.counts = PanicBaseline.counts := by decide

end C03

/-! ## Components: panic freedom and termination of the code the line state machine calls

Each statement is the theorem of the component's own property file, restated here because a panic
or a non-terminating loop in any of them is a violation of C03 whatever else it breaks. The models
keep every Rust panic point (slice, index, `unwrap`, `usize` subtraction / overflow in builds with
overflow checks, `unreachable!`) as an explicit `Except` error branch and every loop as a fuel-bounded
iteration whose fuel is proved sufficient, so "returns `.ok`" means: no panic, and it terminates. -/
namespace C03.Components

/-- `src/edits.rs tokenize`: for every line and every ordered, disjoint, in-range list of regex
match spans the tokeniser returns (no slice out of range, no char-boundary panic). -/
theorem tokenize_never_panics (line : List Edits.G) (spans : List (Nat × Nat))
    (h : Edits.SpansOk line.length 0 spans) : ∃ toks, Edits.tokenize line spans = .ok toks :=
  C06.tokenize_total line spans h

/-- `src/edits.rs annotate` + `src/align.rs`: tokenising, filling the alignment table, reading the
operations back and mapping them to byte ranges succeeds for every pair of lines. -/
theorem annotate_never_panics (t : Edits.Tags) (m p : Edits.Line)
    (hm : Edits.SpansOk m.gs.length 0 m.spans) (hp : Edits.SpansOk p.gs.length 0 p.spans) :
    ∃ a, Edits.annotatePair t m p = .ok a := C06.annotate_total t m p hm hp

/-- `src/wrapping.rs wrap_line`: terminates (with a line limit, or when the line fits, or — on the
repaired tree — always) … -/
theorem wrap_line_terminates (cfg : Wrap.Cfg) (line : List Wrap.Sec) (lw fill : Nat) (hint : Option Nat)
    (h : 0 < Wrap.effMax cfg lw ∨ Wrap.Fits cfg lw line ∨ Wrap.currentFixes.stuckStop = true) :
    ∃ o, Wrap.wrapFull cfg line lw fill hint = .ok o := C07.wrap_terminates cfg line lw fill hint h

/-- … and never reaches one of its panic points (`/ line_width`, `unreachable!`, `unwrap`). -/
theorem wrap_line_never_panics (cfg : Wrap.Cfg) (line : List Wrap.Sec) (lw fill : Nat) (hint : Option Nat)
    (msg : String) : Wrap.wrapFull cfg line lw fill hint ≠ .error (.panic msg) :=
  C07.wrap_never_panics cfg line lw fill hint msg

/-- `src/wrapping.rs wrap_minusplus_block`: the alignment walk over wrapped rows does not hit its
index asserts for any valid alignment. -/
theorem wrap_block_never_panics (al : Wrap.Align) (mc pc : List Nat)
    (hv : Wrap.ValidAlign al mc.length pc.length) : ∃ r, Wrap.wrapBlock al mc pc = .ok r :=
  C07.aligned_rows_no_panic al mc pc hv

/-- `src/ansi/iterator.rs`: on every benign line (characters, CSI/SGR sequences with at most 32
parameters, OSC strings) the element ranges partition the line on char boundaries — what the
slicing consumers (`strip_ansi_codes`, `measure_text_width`, `truncate_str`) rely on. -/
theorem ansi_elements_partition {s : Ansi.Bytes} (h : Ansi.Benign s) : Ansi.isPartition s = true :=
  C08.vte_partition h

/-- `src/paint.rs superimpose_style_sections`: succeeds whenever the two sectionings spell the same
text (the "String mismatch" panic is unreachable then). -/
theorem superimpose_never_panics (env : Superimpose.Env) (syn : List (Superimpose.SynStyle × List Char))
    (diff : List (Superimpose.Style × List Char)) (hpart : Superimpose.text syn = Superimpose.text diff) :
    ∃ out, Superimpose.superimposeStyleSections env syn diff = .ok out :=
  C15.superimpose_no_panic env syn diff hpart

/-- `src/handlers/grep.rs make_style_sections`: for every line and every list of submatch offsets
(in range or not, ordered or not) the sections are built and spell the line. -/
theorem grep_sections_never_panic (hfix : Generated.Grep.fixSectionsGuard = true)
    (line : Grep.Bytes) (subs : List (Nat × Nat)) :
    ∃ secs, Grep.makeStyleSections line subs = .ok secs ∧ Grep.secsText secs = line :=
  C16.json_sections_total hfix line subs

/-- `src/handlers/blame.rs`: colour assignment over any history of blame keys never reaches
`delta_unreachable` and gives every line a colour. -/
theorem blame_colours_never_panic (pal : List Blame.Colour) (hpal : pal ≠ []) (hist : List Blame.Key) :
    ∃ s ps, Blame.run pal {} (Blame.plain hist) = .ok (s, ps) ∧ ps.length = hist.length ∧
      ∀ p ∈ ps, ∃ c, p.colour = some c := C17.run_total pal hpal hist

/-- `src/features/line_numbers.rs`: numbering a hunk whose numbers fit `usize` never overflows. -/
theorem line_numbers_never_overflow (bufSize a c : Nat) (ks : List LineNumbers.Kind)
    (ha : a + LineNumbers.countOld ks ≤ LineNumbers.usizeMax) (hc : c + LineNumbers.countNew ks ≤ LineNumbers.usizeMax) :
    ∃ r, LineNumbers.runUnified bufSize ⟨a, c⟩ ks = .ok r := by
  obtain ⟨rows, h, _⟩ := C05.unified_numbers_true bufSize a c ks ha hc
  exact ⟨_, h⟩

end C03.Components
