import Proofs.Machine.Total
import DeltaModel.Generated.PanicInventory
import DeltaModel.PanicBaseline
import Props.C05
import Props.C06
import Props.C07
import Props.C08
import Props.C15
import Props.C16
import Props.C17
import Proofs.Startup
import Props.C13
import Proofs.FeatureGather
import Proofs.FeatureGatherOptions
/-!
C03 — delta never crashes or hangs, whatever bytes and options it is given.

The model keeps every Rust panic point of the line state machine (slices, indexing, `unwrap`,
`delta_unreachable`) as an explicit error branch. `machine_total`: none of them is reachable, for
every configuration and every input. (False on the pinned tree before the `fix:` commits 9e2fda3,
ac13fa5, 20166a8, 19be116, 26f1e1a: the model produced the witnesses `@@ foo @@`, an over-long
number, `diff --git ` without paths, `--- "`, a combined-diff line with a multi-byte prefix, a
`+++ ` line met in a submodule state.) The loops of the model are structural recursions over the
input, so the run also terminates. Panic freedom of wrapping / alignment / ANSI parsing / line
numbers / grep / blame is proved in the files of C07, C06, C08, C05, C16, C17 and collected at the
end of this file (`Components`): those theorems are obligations of this check too, so a change that
makes one of these components panic or loop breaks C03's proof as well as the component's own.
-/
namespace C03
open Machine Headers

/-- `machine_total`: for all configurations and all inputs the run of the line state machine
completes without reaching a panic / `delta_unreachable` branch. -/
theorem machine_total (cfg : Cfg) (ls : List L) : ∃ m, run cfg ls = .ok m := run_total cfg ls

/-- every step from a well-formed state is a step to a well-formed state, without error: the
invariant that makes the `delta_unreachable` arms of `new_line_state` / `n_parents` and the
`len() - 1` of the hunk header unreachable -/
theorem step_never_panics (cfg : Cfg) (m : M) (l : L) (w : wfState m.st = true) :
    ∃ m', step cfg m l = .ok m' ∧ wfState m'.st = true := step_total cfg m l w

example : wfState ({} : M).st = true := rfl

/-- header parsing is total (these functions have no error branch left): a line that only looks
like a hunk header is simply not one -/
theorem bad_hunk_headers_rejected :
    parseHunkHeader "@@ foo @@".toList = none ∧
    parseHunkHeader "@@ -1 +99999999999999999999999 @@".toList = none := by
  constructor <;> decide

/-- `diff --git ` without paths: no path, no panic -/
theorem diff_git_without_paths : repeatedFilePath "diff --git ".toList [] = none := by decide

/-- a path that is a single double quote is left alone -/
theorem single_quote_path : removeSurroundingQuotes ['"'] = ['"'] := by decide

/-- the prefix columns of a combined-diff line are never cut inside a character -/
theorem byte_prefix_is_prefix (n : Nat) (s : Str) : ∃ rest, s = bytePrefix n s ++ rest := by
  induction s generalizing n with
  | nil => exact ⟨[], by cases n <;> simp [bytePrefix]⟩
  | cons c cs ih =>
    cases n with
    | zero => exact ⟨c :: cs, by simp [bytePrefix]⟩
    | succ n =>
      simp only [bytePrefix]
      split
      · obtain ⟨rest, hr⟩ := ih (n + 1 - c.utf8Size)
        exact ⟨rest, by rw [List.cons_append, ← hr]⟩
      · exact ⟨c :: cs, by simp⟩

/-- `inventory_reviewed`: the panic points found in the render-path sources on this run are
exactly the reviewed ones (a new `unwrap`, index expression, `panic!` … breaks this). -/
theorem inventory_reviewed : Generated.PanicInventory.counts = PanicBaseline.counts := by decide

end C03

/-! ## Components: panic freedom and termination of the code the line state machine calls

Each statement is the theorem of the component's own property file, restated here because a panic
or a non-terminating loop in any of them is a violation of C03 whatever else it breaks. The models
keep every Rust panic point (slice, index, `unwrap`, `usize` subtraction / overflow in builds with
overflow checks, `unreachable!`) as an explicit `Except` error branch and every loop as a fuel-bounded
iteration whose fuel is proved sufficient, so "returns `.ok`" means: no panic, and it terminates. -/
namespace C03.Components

/-- `src/edits.rs tokenize`: for every line and every ordered, disjoint, in-range list of regex
match spans the tokeniser returns (no slice out of range, no char-boundary panic). -/
theorem tokenize_never_panics (line : List Edits.G) (spans : List (Nat × Nat))
    (h : Edits.SpansOk line.length 0 spans) : ∃ toks, Edits.tokenize line spans = .ok toks :=
  C06.tokenize_total line spans h

/-- `src/edits.rs annotate` + `src/align.rs`: tokenising, filling the alignment table, reading the
operations back and mapping them to byte ranges succeeds for every pair of lines. -/
theorem annotate_never_panics (t : Edits.Tags) (m p : Edits.Line)
    (hm : Edits.SpansOk m.gs.length 0 m.spans) (hp : Edits.SpansOk p.gs.length 0 p.spans) :
    ∃ a, Edits.annotatePair t m p = .ok a := C06.annotate_total t m p hm hp

/-- `src/wrapping.rs wrap_line`: terminates (with a line limit, or when the line fits, or — on the
repaired tree — always) … -/
theorem wrap_line_terminates (cfg : Wrap.Cfg) (line : List Wrap.Sec) (lw fill : Nat) (hint : Option Nat)
    (h : 0 < Wrap.effMax cfg lw ∨ Wrap.Fits cfg lw line ∨ Wrap.currentFixes.stuckStop = true) :
    ∃ o, Wrap.wrapFull cfg line lw fill hint = .ok o := C07.wrap_terminates cfg line lw fill hint h

/-- … and never reaches one of its panic points (`/ line_width`, `unreachable!`, `unwrap`). -/
theorem wrap_line_never_panics (cfg : Wrap.Cfg) (line : List Wrap.Sec) (lw fill : Nat) (hint : Option Nat)
    (msg : String) : Wrap.wrapFull cfg line lw fill hint ≠ .error (.panic msg) :=
  C07.wrap_never_panics cfg line lw fill hint msg

/-- `src/wrapping.rs wrap_minusplus_block`: the alignment walk over wrapped rows does not hit its
index asserts for any valid alignment. -/
theorem wrap_block_never_panics (al : Wrap.Align) (mc pc : List Nat)
    (hv : Wrap.ValidAlign al mc.length pc.length) : ∃ r, Wrap.wrapBlock al mc pc = .ok r :=
  C07.aligned_rows_no_panic al mc pc hv

/-- `src/ansi/iterator.rs`: on every benign line (characters, CSI/SGR sequences with at most 32
parameters, OSC strings) the element ranges partition the line on char boundaries — what the
slicing consumers (`strip_ansi_codes`, `measure_text_width`, `truncate_str`) rely on. -/
theorem ansi_elements_partition {s : Ansi.Bytes} (h : Ansi.Benign s) : Ansi.isPartition s = true :=
  C08.vte_partition h

/-- `src/paint.rs superimpose_style_sections`: succeeds whenever the two sectionings spell the same
text (the "String mismatch" panic is unreachable then). -/
theorem superimpose_never_panics (env : Superimpose.Env) (syn : List (Superimpose.SynStyle × List Char))
    (diff : List (Superimpose.Style × List Char)) (hpart : Superimpose.text syn = Superimpose.text diff) :
    ∃ out, Superimpose.superimposeStyleSections env syn diff = .ok out :=
  C15.superimpose_no_panic env syn diff hpart

/-- `src/handlers/grep.rs make_style_sections`: for every line and every list of submatch offsets
(in range or not, ordered or not) the sections are built and spell the line. -/
theorem grep_sections_never_panic (hfix : Generated.Grep.fixSectionsGuard = true)
    (line : Grep.Bytes) (subs : List (Nat × Nat)) :
    ∃ secs, Grep.makeStyleSections line subs = .ok secs ∧ Grep.secsText secs = line :=
  C16.json_sections_total hfix line subs

/-- `src/handlers/blame.rs`: colour assignment over any history of blame keys never reaches
`delta_unreachable` and gives every line a colour. -/
theorem blame_colours_never_panic (pal : List Blame.Colour) (hpal : pal ≠ []) (hist : List Blame.Key) :
    ∃ s ps, Blame.run pal {} (Blame.plain hist) = .ok (s, ps) ∧ ps.length = hist.length ∧
      ∀ p ∈ ps, ∃ c, p.colour = some c := C17.run_total pal hpal hist

/-- `src/features/line_numbers.rs`: numbering a hunk whose numbers fit `usize` never overflows. -/
theorem line_numbers_never_overflow (bufSize a c : Nat) (ks : List LineNumbers.Kind)
    (ha : a + LineNumbers.countOld ks ≤ LineNumbers.usizeMax) (hc : c + LineNumbers.countNew ks ≤ LineNumbers.usizeMax) :
    ∃ r, LineNumbers.runUnified bufSize ⟨a, c⟩ ks = .ok r := by
  obtain ⟨rows, h, _⟩ := C05.unified_numbers_true bufSize a c ks ha hc
  exact ⟨_, h⟩


/-! ### Gathering the feature list (`src/options/set.rs gather_features_recursively`): terminates on every feature graph

The `features = …` entries of the `[delta "<name>"]` sections of a gitconfig form a graph that is the user's to write:
self-loops, mutual inclusion, cycles below the top level are all accepted configurations. The walk ends because the
recursive call stands inside `if !features.contains(&child_feature…)` and the feature is pushed before its children are
visited; `Generated/FeatureGather.lean` records where these tests stand in the source under check. -/

/-- `recursion_guarded_by_membership`: in the source under check every recursive call of `gather_features_recursively`
sits inside `if !features.contains(&<the child>…)` within the loop over the section's `features` words, the feature is
pushed before that loop, and `gather_builtin_features_recursively` returns at once for a feature already in the list. -/
theorem recursion_guarded_by_membership :
    Generated.FeatureGather.recursionGuarded = true ∧ Generated.FeatureGather.recursionInChildLoop = true ∧
    Generated.FeatureGather.pushBeforeRecursion = true ∧
    Generated.FeatureGather.builtinReturnsEarlyWhenPresent = true := by decide

/-- … and the shape the walk of `DeltaModel/FeatureGather.lean` is run with is the one C13's `Options.gatherR` has
(unconditional push, guarded descent). -/
theorem gather_shape_as_modelled : FeatureGather.sourceShape = ⟨false, true⟩ := by decide

/-- `feature_walk_terminates`: with the guard where `recursion_guarded_by_membership` finds it, the walk from any feature
(new, repeated, unknown) and any list built so far returns — on EVERY feature graph `children` (self-loops, cycles of any
length, any depth), whatever the builtin gatherer adds (`enterB`, `leave`: they only have to keep what is in the list);
`U` = the words of all `features` values, and `|U| + 1` levels of recursion are enough. Whether the push is itself
guarded (`pushGuarded`) does not matter. -/
theorem feature_walk_terminates (hguard : Generated.FeatureGather.recursionGuarded = true)
    (builtin : FeatureGather.Name → Bool) (enterB leave : FeatureGather.Name → List FeatureGather.Name → List FeatureGather.Name)
    (children : FeatureGather.Name → List FeatureGather.Name) (U : List FeatureGather.Name)
    (hE : ∀ f acc, builtin f = true → f ∈ enterB f acc ∧ ∀ x, x ∈ acc → x ∈ enterB f acc)
    (hL : ∀ f acc x, x ∈ acc → x ∈ leave f acc) (hU : ∀ f c, c ∈ children f → c ∈ U)
    (f : FeatureGather.Name) (acc : List FeatureGather.Name) :
    ∃ r, FeatureGather.walk FeatureGather.sourceShape builtin enterB leave children (U.length + 1) f acc = some r :=
  let ⟨r, h, _⟩ := FeatureGather.walk_terminates FeatureGather.sourceShape builtin enterB leave children U hE hL hU hguard f acc
  ⟨r, h⟩

/-- the two-cycle `[delta "a"] features = b` / `[delta "b"] features = a` -/
def twoCycle : FeatureGather.Name → List FeatureGather.Name := fun f => if f = "a" then ["b"] else ["a"]

example : FeatureGather.walk ⟨false, true⟩ (fun _ => false) (fun _ a => a) (fun _ a => a) twoCycle 3 "a" [] = some ["b", "a"] := by
  decide

/-- The hypothesis is needed: without the guard on the recursive call (whether or not the push is guarded instead) the walk
over the two-cycle never returns, whatever the fuel — the stack overflow of a tree whose guard protects only the push. -/
theorem unguarded_walk_never_returns (pushGuarded : Bool) (n : Nat) (f : FeatureGather.Name) (acc : List FeatureGather.Name) :
    FeatureGather.walk ⟨pushGuarded, false⟩ (fun _ => false) (fun _ a => a) (fun _ a => a) twoCycle n f acc = none := by
  induction n generalizing f acc with
  | zero => rfl
  | succ n ih =>
    rw [FeatureGather.walk]
    by_cases h : f = "a" <;> simp [twoCycle, h, FeatureGather.foldOpt, ih]

/-- `feature_walk_is_gatherR`: the walk of `feature_walk_terminates`, run with the source's shape and the builtin
gatherers of C13's model (`gatherB`, `gatherFlags`, the `features` words of the git config's sections), returns the list
C13's `Options.gatherR` returns: the function whose result C13's check compares with the binary's on cyclic graphs. -/
theorem feature_walk_is_gatherR (hshape : FeatureGather.sourceShape = ⟨false, true⟩) (bs : Options.Builtins)
    (π : List Options.Name) (fb : Nat) (g : Options.GitCfg) (n : Nat) (f : Options.Name) (acc r : List Options.Name)
    (h : FeatureGather.walk FeatureGather.sourceShape (fun f => (Options.lookup f bs).isSome) (Options.gatherB bs π fb)
      (fun f => Options.gatherFlags bs π fb g (some f)) (fun f => Options.secFeatures g (some f)) n f acc = some r) :
    Options.gatherR bs π fb g n f acc = r := by
  rw [hshape] at h
  exact FeatureGather.walk_eq_gatherR bs π fb g n f acc r h

/-- `feature_gathering_terminates`: C13's model of `gather_features` (`Options.gatherFeaturesWith`: fuel-bounded
`gatherR` / `gatherB`, the functions compared with the binary's `--show-config` on cyclic feature graphs by C13's check)
never uses up its fuel — any larger fuel gives the same list — for every option set and every git config, cyclic or
not; C13's `gather_fuel_suffices`, restated here because a walk that does not end is a violation of C03. The model has
its `contains` test where `recursion_guarded_by_membership` finds the source's. -/
theorem feature_gathering_terminates (_hguard : Generated.FeatureGather.recursionGuarded = true)
    (_hshape : FeatureGather.sourceShape = ⟨false, true⟩) (π : List Options.Name) (inp : Options.Inputs) (k : Nat)
    (hk : Options.fuelFor (Options.builtinsFor inp) (Options.keysOf (Options.builtinsFor inp) π) inp (Options.finalConfig inp) ≤ k) :
    Options.gatherFeaturesWith k π inp = Options.gatherFeatures π inp :=
  C13.gather_fuel_suffices π inp k hk

end C03.Components

/-! ## Start-up: option values cannot make delta panic before the first input line (task T9)

`DeltaModel/Startup.lean` models what `set_options` / `Config::from` do with the *values* of `--width`,
`--wrap-max-lines`, `--max-line-length` (side-by-side), `--tabs`, the line-number formats and the panel widths:
string → number parsing (`usize` / `isize` `from_str`), the `A-B` width expressions, and every `usize` / `isize`
operation of a build with overflow checks as an explicit `.panic` branch; `fatal(…)` (message, exit status 2) is
`.fatal`. The arithmetic is not hand-written: `Generated/Startup.lean` holds the expressions the extractor translated
from `adapt_wrap_max_lines_argument`, `config_max_line_length`, `new_sbs`, `adapt_sbs_data`; "cannot overflow" is the
interval evaluation `range` of those expressions (`Proofs/StartupExpr.lean: range_sound`, for all values inside the
intervals). The theorems quantify over ALL argument strings. -/
namespace C03.StartUp
open Startup Generated.Startup

/-- `--width`: for every argument text (numbers, `-N`, `A-B`, spaces, signs, garbage, any Unicode) and every terminal
width that fits `isize` (terminals report `u16`), `parse_width_specifier` returns a width or refuses with a message;
in particular its `try_into().unwrap()` is unreachable and neither `isize` addition overflows. -/
theorem width_value_never_panics (arg : Str) (tw : Nat) (htw : tw ≤ isizeMax) :
    isPanic (parseWidthSpecifier arg tw) = false := by
  rcases parseWidthSpecifier_total arg tw htw with ⟨n, hn, _⟩ | he
  · rw [hn]; rfl
  · rw [he]; rfl

example : parseWidthSpecifier " 50 - 3 ".toList 80 = .ok 47 := by decide
example : parseWidthSpecifier "-9223372036854775808".toList 80 = .error badWidth := by decide

/-- the hypothesis on the terminal width is needed: `terminal_width as isize` is negative beyond `isize::MAX` -/
theorem width_needs_terminal_width_in_isize :
    isPanic (parseWidthSpecifier "-1".toList 9223372036854775808) = true := by decide

/-- … and the accepted width always fits `isize` (so the panel arithmetic below starts from a sane number). -/
theorem width_value_fits_isize (arg : Str) (tw n : Nat) (htw : tw ≤ isizeMax)
    (h : parseWidthSpecifier arg tw = .ok n) : n ≤ isizeMax := by
  rcases parseWidthSpecifier_total arg tw htw with ⟨m, hm, hle⟩ | he
  · rw [hm] at h; cases h; exact hle
  · rw [he] at h; cases h

/-- `--wrap-max-lines`: of all argument texts only the decimal text of `usize::MAX` (with or without `+`, with
leading zeros) can make `adapt_wrap_max_lines_argument` panic; everything else is a number of lines, "no limit", or a
clean refusal. -/
theorem wrap_max_lines_panics_only_at_usize_max (arg : Str) (m : String)
    (h : adaptWrapMaxLines arg = .error (.panic m)) : parseUsize arg = some usizeMax := by
  rcases adaptWrapMaxLines_cases arg with ⟨n, hn⟩ | ⟨f, hf⟩ | hmax
  · rw [hn] at h; cases h
  · rw [hf] at h; cases h
  · exact hmax

example : adaptWrapMaxLines "unlimited".toList = .ok 0 ∧ adaptWrapMaxLines "+7".toList = .ok 8 ∧
    adaptWrapMaxLines "-1".toList = .error (.fatal "Invalid wrap-max-lines argument") := by decide

/-- At `usize::MAX` it does panic as long as the source adds with `+` (the pinned tree: `attempt to add with overflow`,
known finding); the left alternative holds once the addition saturates (`notes/fix-wrap-max-lines-overflow.diff`). -/
theorem wrap_max_lines_at_usize_max :
    (range [(0, usizeMax)] wrapMaxLinesArith).isSome = true ∨
      isPanic (adaptWrapMaxLines "18446744073709551615".toList) = true := by decide

/-- … and with an addition that cannot overflow no argument text panics. -/
theorem wrap_max_lines_never_panics (hfix : (range [(0, usizeMax)] wrapMaxLinesArith).isSome = true) (arg : Str) :
    isPanic (adaptWrapMaxLines arg) = false := by
  unfold adaptWrapMaxLines
  split
  · rfl
  · split
    · rfl
    · rename_i n hn
      obtain ⟨v, hv⟩ := eval_ok_of_range (inEnv1 (Nat.zero_le n) (parseUsize_le hn)) _ hfix
      rw [hv]; rfl

example : (range [(0, usizeMax)] (.satAdd (.var 0) (.lit 1))).isSome = true := by decide

/-- `max_line_length` in side-by-side mode (`config_max_line_length`): for every `--max-line-length`, every terminal up
to 65535 columns and every line limit up to 10^12 none of the multiplications / additions overflows. -/
theorem max_line_length_no_overflow (maxLines maxLineLength tw : Nat) (h1 : maxLines ≤ 1000000000000)
    (h2 : maxLineLength ≤ usizeMax) (h3 : tw ≤ 65535) :
    ∃ v, configMaxLineLength maxLines maxLineLength tw = .ok v :=
  configMaxLineLength_ok (B := 1000000000000) (W := 65535) (by decide) maxLines maxLineLength tw h1 h2 h3

example : configMaxLineLength 6 100 80 = .ok 300 := by decide

/-- The bound on the line limit is needed on the pinned tree: `--side-by-side --wrap-max-lines 100000000000000000`
multiplies beyond `usize` (known finding); the left alternative holds once the arithmetic saturates. -/
theorem max_line_length_overflows_for_huge_limits :
    rangeArms [(0, usizeMax), (0, usizeMax), (0, usizeMax)] configMaxLineLengthArms = true ∨
      isPanic (configMaxLineLength 100000000000000001 3000 80) = true := by decide

/-- … and with saturating arithmetic it never does, for any three `usize` values. -/
theorem max_line_length_never_panics
    (hfix : rangeArms [(0, usizeMax), (0, usizeMax), (0, usizeMax)] configMaxLineLengthArms = true)
    (maxLines maxLineLength tw : Nat) (h1 : maxLines ≤ usizeMax) (h2 : maxLineLength ≤ usizeMax) (h3 : tw ≤ usizeMax) :
    ∃ v, configMaxLineLength maxLines maxLineLength tw = .ok v :=
  configMaxLineLength_ok hfix maxLines maxLineLength tw h1 h2 h3

/-- Side-by-side panel widths (`new_sbs`, `sbs_odd_fix`): for every width (`--width N`, the terminal's, or `variable`)
and either fill method the division and the `+ 1` of the odd-width correction are panic free. -/
theorem panels_never_overflow (w : Width) (tw : Nat) (ansi : Bool) (hw : ∀ n, w = .fixed n → n ≤ usizeMax)
    (htw : tw ≤ usizeMax) : ∃ p0 p, newSbs w tw = .ok p0 ∧ sbsOddFix w ansi p0 = .ok p :=
  panels_total w tw ansi hw htw

example : newSbs (.fixed 51) 80 = .ok ⟨25, 25⟩ ∧ sbsOddFix (.fixed 51) true ⟨25, 25⟩ = .ok ⟨25, 26⟩ := by decide

/-- `--tabs N`: `TabCfg::new` panics ("capacity overflow") exactly when the replacement string would exceed
`isize::MAX` bytes; below that it *allocates* N bytes (a huge N is a runaway allocation: known finding). -/
theorem tabs_capacity_overflow_iff (n : Nat) : isPanic (tabCfgNew n) = true ↔ isizeMax < n * tabUnitBytes :=
  tabCfgNew_panics_iff n

example : isPanic (tabCfgNew 18446744073709551615) = true ∧ tabCfgNew 8 = .ok 8 := by decide

/-- the line-number format strings are refused with a message at worst (the parser's own theorems: C17) -/
theorem line_number_format_never_panics (s : Str) : isPanic (lineNumberFormat s) = false :=
  lineNumberFormat_not_panic s

/-- the model runs the steps in the order `Config::from` does (first call of each, regenerated) -/
theorem config_from_order_as_modelled : configFromOrder = modelledOrder ∧ widthBeforeConfigFrom = true := by decide

/-- **`startup_never_panics`**: for every text given to `--width`, `--wrap-max-lines`, the two line-number formats,
every `--max-line-length`, both layouts and fill methods, on every terminal of at most 65535 columns: start-up
(`set_widths_and_isatty`, then the modelled steps of `Config::from` in source order) ends normally or with `fatal`
— never with a panic — provided the width asked for is at most 65535 columns too, `--wrap-max-lines`, when it is a
number, is below 10^12, and the tab replacement fits `isize`. All three provisos are needed on the pinned tree
(`huge_width_overflows_side_by_side`, `wrap_max_lines_at_usize_max`, `max_line_length_overflows_for_huge_limits`,
`tabs_capacity_overflow_iff`). -/
theorem startup_never_panics (o : Opts) (tw : Nat) (htw : tw ≤ 65535)
    (hwid : ∀ n, setWidths o.width tw = .ok (.fixed n) → n ≤ 65535)
    (hwrap : ∀ n, parseUsize o.wrapMaxLines = some n → n < 1000000000000)
    (hm : o.maxLineLength ≤ usizeMax) (htabs : o.tabs * tabUnitBytes ≤ isizeMax) :
    isPanic (startup o tw) = false :=
  startup_not_panic o tw 999999999999 1000000000000 65535 (by have : (65535 : Nat) ≤ isizeMax := by decide
                                                              omega) htw hwid
    (fun n hn => by have := hwrap n hn; omega) ⟨1, by decide⟩ (by decide) (by decide) hm htabs

example : startup { width := some " 50 - 3 ".toList, wrapMaxLines := "5".toList, maxLineLength := 100, sideBySide := true } 80
    = .ok ⟨.fixed 47, 6, ⟨23, 24⟩, (if maxLineLengthUsesViewWidth then 172 else 300), 8⟩ := by decide +kernel
example : parseUsize "999999999999".toList = some 999999999999 := by decide

/-- The proviso on the width is needed where the limit is derived from `--width` (pinned tree since 3831e3a):
`--side-by-side --width 9223372036854775807` multiplies beyond `usize` at start-up (known finding). The other
alternatives: the arithmetic saturates, or the limit is derived from the terminal width. -/
theorem huge_width_overflows_side_by_side :
    rangeArms [(0, usizeMax), (0, usizeMax), (0, usizeMax)] configMaxLineLengthArms = true ∨
      maxLineLengthUsesViewWidth = false ∨
      isPanic (startup { width := some "9223372036854775807".toList, sideBySide := true } 80) = true := by
  decide +kernel

/-- With saturating arithmetic in `adapt_wrap_max_lines_argument` and `config_max_line_length` the provisos on
`--width` and `--wrap-max-lines` disappear: only the allocation of the tab replacement remains. -/
theorem startup_never_panics_when_saturating
    (h1 : (range [(0, usizeMax)] wrapMaxLinesArith).map Prod.snd = some usizeMax)
    (h2 : rangeArms [(0, usizeMax), (0, usizeMax), (0, usizeMax)] configMaxLineLengthArms = true)
    (o : Opts) (tw : Nat) (htw : tw ≤ isizeMax) (hm : o.maxLineLength ≤ usizeMax)
    (htabs : o.tabs * tabUnitBytes ≤ isizeMax) : isPanic (startup o tw) = false := by
  have hex : ∃ lo, range [(0, usizeMax)] wrapMaxLinesArith = some (lo, usizeMax) := by
    match hr : range [(0, usizeMax)] wrapMaxLinesArith, h1 with
    | some (lo, hi), h1 => simp only [Option.map_some, Option.some.injEq] at h1; subst h1; exact ⟨lo, rfl⟩
  have hi64 : isizeMax ≤ usizeMax := by decide
  exact startup_not_panic o tw usizeMax usizeMax usizeMax htw (by omega)
    (fun n hn => by have := setWidths_fixed_le o.width tw n htw hn; omega)
    (fun n hn => parseUsize_le hn) hex (by decide) h2 hm htabs

example : (range [(0, usizeMax)] (.satAdd (.var 0) (.lit 1))).map Prod.snd = some usizeMax := by decide

end C03.StartUp
