import Proofs.Machine.Run
/-!
C10 — file sections render independently of their neighbours.

`section_reset`: after a `diff ` line has been handled, every per-file field of the machine is a
function of that line alone, the line buffers are empty and nothing of the previous section is
still to be painted; `no_overtaking`: nothing of a previous section can be written after rows of
the next one (the ordering theorem of C01, which is what rules out the "emitted after the start
of the next" failure). Determinism: the model is a function; run-to-run variation of the real
process (hash seeds) is exercised by repeated runs, not proved (partial).
-/
set_option linter.unusedSimpArgs false
namespace C10
open Machine Headers

/-- the per-file fields of the machine -/
structure FileFields where
  minusFile : Str
  plusFile : Str
  minusEvent : FileEvent
  plusEvent : FileEvent
  diffLine : Str
  currentPair : Option (Str × Str)
  handledPair : Option (Str × Str)
  deriving DecidableEq

def fileFields (m : M) : FileFields :=
  ⟨m.minusFile, m.plusFile, m.minusEvent, m.plusEvent, m.diffLine, m.currentPair, m.handledPair⟩

/-- what a `diff ` line alone determines -/
def fieldsOfDiffLine (name : Option Str) (l : L) : FileFields :=
  ⟨name.getD [], name.getD [], .change, .change, l.text, some (name.getD [], name.getD []), none⟩

/-- `section_reset`: whatever the machine held before, after a `diff ` line the per-file fields
depend on that line only, and no removed/added line of the previous section is still waiting in
the line buffers. -/
theorem section_reset {cfg : Cfg} {m m' : M} {l : L} {b : Bool}
    (hl : startsWith l.text Generated.Markers.diffLine = true)
    (e : handleDiffHeaderDiff cfg m l = .ok (b, m')) :
    b = true ∧ m'.minus = [] ∧ m'.plus = [] ∧
      fileFields m' = fieldsOfDiffLine (repeatedFilePath l.text (diffLineGraphemes l)) l := by
  unfold handleDiffHeaderDiff at e
  simp only [hl, Bool.not_true, Bool.false_eq_true, if_false] at e
  have hq := pendingDiffName_quiet cfg (m := { flushMP m with st := diffLineState l }) (by simp) (by simp)
  split at e
  · cases e
    exact ⟨rfl, hq.1, hq.2, rfl⟩
  · cases e
    refine ⟨rfl, by simp [emitLineUnchanged], by simp [emitLineUnchanged], ?_⟩
    unfold emitLineUnchanged direct emit flushMP fileFields fieldsOfDiffLine diffLineFields
    repeat' split
    all_goals rfl

/-- `no_overtaking`: in a complete run no row is written while rows of earlier lines (hence of an
earlier section) are still held back. -/
theorem no_overtaking {cfg : Cfg} {ls : List L} {m : M} (e : run cfg ls = .ok m) : m.orderOk = true :=
  (run_spec e).1

end C10
