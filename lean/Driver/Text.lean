import DeltaModel.Proto
import DeltaModel.Text
open Proto

def stepText (line : String) : String :=
  match fields line with
  | ["text.expand", w, s] =>
    match natOfField w, stringOfField s with
    | some w, some s => "ok " ++ hexOfString (String.ofList (Text.expand w s.toList))
    | _, _ => "ERR"
  | ["text.remove_prefix_and_expand", p, w, s] =>
    match natOfField p, natOfField w, stringOfField s with
    | some p, some w, some s =>
      "ok " ++ hexOfString (String.ofList (Text.removePrefixAndExpand p w s.toList))
    | _, _, _ => "ERR"
  | _ => "ERR"

def main : IO Unit := serve stepText
