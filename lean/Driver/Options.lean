import DeltaModel.Proto
import DeltaModel.Options
import DeltaModel.GitParams
import DeltaModel.ThemeChoice
/-!
Model driver for C13 (`drv_opts`).

`opts.resolve <pi> <cli> <cliFeatures> <envFeatures> <envNavigate> <noGitconfig> <defaultCfg>
              <configFile> <params> <probes>`

* `pi`           x<hex>: builtin feature names separated by one space (the enumeration order)
* `cli`          x<hex>: lines `name TAB value` — options supplied on the command line
* `cliFeatures`  `-` (absent) or x<hex> of the `--features` argument
* `envFeatures`  `-` (unset) or x<hex> of `DELTA_FEATURES`
* `envNavigate`  0 | 1
* `noGitconfig`  0 | 1
* `defaultCfg`   `-` (no default git config object) or x<hex> git file (see below)
* `configFile`   `-` or x<hex> git file
* `params`       x<hex>: lines `key TAB value` (`GIT_CONFIG_PARAMETERS`, `delta.` stripped)
* `probes`       x<hex>: option names separated by one space

git file: lines `m TAB key TAB value` (`[delta]`), `s TAB feature TAB key TAB value`
(`[delta "feature"]`), `o TAB fullkey TAB value` (anything else); a key written without `= value`:
`mb TAB key`, `sb TAB feature TAB key`. Values are what libgit2's file parser hands over (quotes,
escapes, comments removed).

Response: `ok <x features joined by space> <v1> <v2> …` with one `v` per probe:
`c:<xhex>` command line, `g:<xhex>` git config text, `b:<xhex>` builtin literal,
`f:0|1` builtin boolean, `y:<xhex>` builtin dynamic default, `d` clap default,
`r:<xhex>` clap default rewritten before the macro, `w:<xhex>` value written after the macro.

`opts.resolveraw …` — the same request with `params` = `-` (the variable is unset) or x<hex> of the text of
`GIT_CONFIG_PARAMETERS` itself: the model reads it (`GitParams.paramsOfEnv`); `PANIC` when the reader panics.

`opts.params <x text of GIT_CONFIG_PARAMETERS>` → `ok <x lines "key TAB value">`: the pairs `GitParams.parsePairs` finds,
in order, full keys; `PANIC` when the reader panics.

`opts.theme <pi> <cli> <cliFeatures> <envFeatures> <envNavigate> <noGitconfig> <defaultCfg> <configFile> <params text>
            <bat> <shouldDetect> <detected>` — the request of `opts.resolveraw` without probes, plus `bat` = `-` or x<hex> of
`BAT_THEME`, `shouldDetect` 0 | 1, `detected` `-` | `light` | `dark` (what the terminal answered). Answer:
`ok fatal` | `ok stuck` | `ok <light 0|1> <dark 0|1> <mode light|dark> <x theme name>` (`ThemeChoice.run`).

`opts.info` → `ok <x flagIteration> <x builtin names joined by space>`.
`opts.tablekeys` → `ok <x feature:opt,opt,…;feature:…>` (keys of the generated builtin tables).
-/
open Proto Options

def splitTab (s : String) : List String := s.splitOn "\t"

def linesOf (s : String) : List String := (s.splitOn "\n").filter (· ≠ "")

def parsePairs (s : String) : List (String × String) :=
  (linesOf s).filterMap fun l =>
    match splitTab l with
    | [k, v] => some (k, v)
    | [k] => some (k, "")
    | _ => none

def insertSection (f k v : String) :
    List (String × List (String × String)) → List (String × List (String × String))
  | [] => [(f, [(k, v)])]
  | (g, es) :: t => if g = f then (g, es ++ [(k, v)]) :: t else (g, es) :: insertSection f k v t

def parseGitFile (s : String) : GitFile :=
  (linesOf s).foldl (fun gf l =>
    match splitTab l with
    | ["m", k, v] => { gf with main := gf.main ++ [(k, v)] }
    | ["s", f, k, v] => { gf with sections := insertSection f k v gf.sections }
    | ["s", f] => if (lookup f gf.sections).isSome then gf
                  else { gf with sections := gf.sections ++ [(f, [])] }
    | ["o", k, v] => { gf with other := gf.other ++ [(k, v)] }
    | ["mb", k] => { gf with main := gf.main ++ [(k, bareMark)] }
    | ["sb", f, k] => { gf with sections := insertSection f k bareMark gf.sections }
    | _ => gf) GitFile.empty

def optField (f : String) : Option (Option String) :=
  if f = "-" then some none else (stringOfField f).map some

def showVal : Val → String
  | .cli s => "c:" ++ hexOfString s
  | .git s => "g:" ++ hexOfString s
  | .bdef (.lit s) => "b:" ++ hexOfString s
  | .bdef (.flag b) => if b then "f:1" else "f:0"
  | .bdef (.dyn e) => "y:" ++ hexOfString e
  | .dflt => "d"
  | .pre s => "r:" ++ hexOfString s
  | .post s => "w:" ++ hexOfString s

def stepOpts (line : String) : String :=
  match fields line with
  | ["opts.info"] =>
    "ok " ++ hexOfString Generated.Options.flagIteration ++ " " ++
      hexOfString (" ".intercalate builtinNames)
  | ["opts.tablekeys"] =>
    "ok " ++ hexOfString (";".intercalate (allBuiltins.map fun (n, t) =>
      n ++ ":" ++ ",".intercalate (t.map (·.1))))
  | ["opts.theme", pi, cli, cf, ef, en, ng, dc, cfg, params, bat, sd, det] =>
    match stringOfField pi, stringOfField cli, optField cf, optField ef, natOfField en,
          natOfField ng, optField dc, optField cfg, optField params, optField bat, natOfField sd with
    | some pi, some cli, some cf, some ef, some en, some ng, some dc, some cfg, some params, some bat, some sd =>
      match GitParams.paramsOfEnv params with
      | none => "PANIC params"
      | some ps =>
        let inp : Inputs :=
          { cli := parsePairs cli, cliFeatures := cf, envFeatures := ef, envNavigate := en ≠ 0,
            noGitconfig := ng ≠ 0, defaultFile := dc.map parseGitFile,
            configFile := cfg.map parseGitFile, params := ps }
        let π := (pi.splitOn " ").filter (· ≠ "")
        let detected : Option ThemeChoice.Mode :=
          if det = "light" then some .light else if det = "dark" then some .dark else none
        match ThemeChoice.run (ThemeChoice.inOf π inp bat (sd ≠ 0) detected) with
        | .fatal => "ok fatal"
        | .stuck => "ok stuck"
        | .chosen s m t =>
          "ok " ++ (if s.light then "1" else "0") ++ " " ++ (if s.dark then "1" else "0") ++ " " ++
            (match m with | .light => "light" | .dark => "dark") ++ " " ++ hexOfString t
    | _, _, _, _, _, _, _, _, _, _, _ => "ERR"
  | ["opts.params", raw] =>
    match stringOfField raw with
    | some raw =>
      match GitParams.parsePairs raw with
      | some ps => "ok " ++ hexOfString ("\n".intercalate (ps.map fun p => p.1 ++ "\t" ++ p.2))
      | none => "PANIC params"
    | none => "ERR"
  | ["opts.resolveraw", pi, cli, cf, ef, en, ng, dc, cfg, params, probes] =>
    match stringOfField pi, stringOfField cli, optField cf, optField ef, natOfField en,
          natOfField ng, optField dc, optField cfg, optField params, stringOfField probes with
    | some pi, some cli, some cf, some ef, some en, some ng, some dc, some cfg, some params,
      some probes =>
      match GitParams.paramsOfEnv params with
      | none => "PANIC params"
      | some ps =>
        let inp : Inputs :=
          { cli := parsePairs cli, cliFeatures := cf, envFeatures := ef, envNavigate := en ≠ 0,
            noGitconfig := ng ≠ 0, defaultFile := dc.map parseGitFile,
            configFile := cfg.map parseGitFile, params := ps }
        let π := (pi.splitOn " ").filter (· ≠ "")
        let feats := gatherFeatures π inp
        let vals := ((probes.splitOn " ").filter (· ≠ "")).map fun o =>
          showVal (finalWith feats inp o)
        "ok " ++ hexOfString (" ".intercalate feats) ++ " " ++ " ".intercalate vals
    | _, _, _, _, _, _, _, _, _, _ => "ERR"
  | ["opts.resolve", pi, cli, cf, ef, en, ng, dc, cfg, params, probes] =>
    match stringOfField pi, stringOfField cli, optField cf, optField ef, natOfField en,
          natOfField ng, optField dc, optField cfg, stringOfField params, stringOfField probes with
    | some pi, some cli, some cf, some ef, some en, some ng, some dc, some cfg, some params,
      some probes =>
      let inp : Inputs :=
        { cli := parsePairs cli, cliFeatures := cf, envFeatures := ef, envNavigate := en ≠ 0,
          noGitconfig := ng ≠ 0, defaultFile := dc.map parseGitFile,
          configFile := cfg.map parseGitFile, params := parsePairs params }
      let π := (pi.splitOn " ").filter (· ≠ "")
      let feats := gatherFeatures π inp
      let vals := ((probes.splitOn " ").filter (· ≠ "")).map fun o =>
        showVal (finalWith feats inp o)
      "ok " ++ hexOfString (" ".intercalate feats) ++ " " ++ " ".intercalate vals
    | _, _, _, _, _, _, _, _, _, _ => "ERR"
  | _ => "ERR"

def main : IO Unit := serve stepOpts
