import DeltaModel.Proto
import DeltaModel.Pager
import DeltaModel.PagerTail
open Proto Pager

/-
Driver for the C18 model (exe `drv_pager`).

  pager.run <mode> <pager 0|1> <writes> <faultpos|-> <bp|other|-> <kind> <spawnok 0|1> <status|sig> <stderrlines>
      mode: stdin | tty | diffargs | sub | early | oneshot | setupabort:<i> | renderabort:<i>
            (<i> = index into setupPhaseExits / renderPhaseExits)      kind: git | gitdiff | diff | rg
      -> ok <code> <silent 0|1> <events>      events: comma separated, runs of successful writes as w*N
  pager.select <config> <DELTA_PAGER> <BAT_PAGER> <PAGER> <self> <lessversion|-> <quit_if_one_screen 0|1>
      each command: `-` (unset) or x<hex of the shell-split words joined by \n>
      -> ok <source> <stdout|refused|less|other> <x path> <x argv joined by \n> <x bat result | ->
  pager.exits
      -> ok <x setupPhaseExits rows `site|kind|via` joined by \n> <x renderPhaseExits rows `site|kind`> <x ownPagerExits rows `site|kind|arm|arg`>
  pager.navsetup <navigate 0|1> <show_themes 0|1> <none|empty|nonempty>
      -> ok <navigate_regex: none|some-empty|given|default> <LESSHISTFILE set 0|1> <x extra args>  |  PANIC <field> ..
  pager.runfull <the nine fields of pager.run> <pager status: e<code> | s<signal> | werr>
      `PagerTail.runFull`: the run with the statements of `impl Drop for OutputType` and of the tail of `main`
      interpreted for that pager status
      -> ok <code of the final exit | -> <silent 0|1: no message event> <events> <x dropStmts rows `guards|effect`>
-/

def optCmd (f : String) : Option (Option Cmd) :=
  if f = "-" then some none
  else match stringOfField f with
    | some s => some (some (if s.isEmpty then [] else s.splitOn "\n"))
    | none => none

def showEvents (evs : List Event) : String :=
  let rec go : List Event → Nat → List String
    | [], n => if n > 0 then [s!"w*{n}"] else []
    | Event.writeOk :: rest, n => go rest (n + 1)
    | e :: rest, n =>
      (if n > 0 then [s!"w*{n}"] else []) ++
      [match e with
        | .spawnPager => "spawnPager"
        | .spawnSub => "spawnSub"
        | .writeOk => "w"
        | .writeFail .brokenPipe => "fail:bp"
        | .writeFail .other => "fail:other"
        | .waitSub => "waitSub"
        | .message => "message"
        | .closePager => "closePager"
        | .waitPager => "waitPager"
        | .exit c => s!"exit:{c}"
        | .unknown => "unknown"] ++ go rest 0
  ",".intercalate (go evs 0)

def parseMode (m kind spawnok status stderr : String) : Option Mode :=
  match m with
  | "stdin" => some .stdin
  | "tty" => some .stdinTty
  | "diffargs" => some .diffArgsError
  | "early" => some .early
  | "oneshot" => some .oneshot
  | "sub" =>
    let k : Option SubKind := match kind with
      | "git" => some .git | "gitdiff" => some .gitDiff | "diff" => some .diff | "rg" => some .rg
      | _ => none
    let st : Option (Option Int) := if status = "sig" then some none else (status.toInt?).map some
    match k, st, stderr.toNat? with
    | some k, some st, some n => some (.sub k (spawnok = "1") st n)
    | _, _, _ => none
  | _ =>
    match m.splitOn ":" with
    | ["setupabort", i] => i.toNat?.map Mode.setupAbort
    | ["renderabort", i] => i.toNat?.map Mode.renderAbort
    | _ => none

def stepPager (line : String) : String :=
  match fields line with
  | ["pager.run", mode, pager, writes, fpos, fkind, kind, spawnok, status, stderr] =>
    let fault : Option (Option Fault) :=
      if fpos = "-" then some none
      else match fpos.toNat?, fkind with
        | some p, "bp" => some (some ⟨p, .brokenPipe⟩)
        | some p, "other" => some (some ⟨p, .other⟩)
        | _, _ => none
    match parseMode mode kind spawnok status stderr, writes.toNat?, fault with
    | some m, some w, some f =>
      let s : Scenario := ⟨m, pager = "1", w, f⟩
      match runResult s with
      | some r => s!"ok {r.code} {if r.silent then 1 else 0} {showEvents (run s)}"
      | none => "PANIC model-shape-unknown"
    | _, _, _ => "ERR"
  | ["pager.runfull", mode, pager, writes, fpos, fkind, kind, spawnok, status, stderr, pst] =>
    let fault : Option (Option Fault) :=
      if fpos = "-" then some none
      else match fpos.toNat?, fkind with
        | some p, "bp" => some (some ⟨p, .brokenPipe⟩)
        | some p, "other" => some (some ⟨p, .other⟩)
        | _, _ => none
    let pstatus : Option PagerTail.PagerStatus :=
      if pst = "werr" then some .waitFailed
      else match pst.toList with
        | 'e' :: r => (String.ofList r).toNat?.map PagerTail.PagerStatus.exited
        | 's' :: r => (String.ofList r).toNat?.map PagerTail.PagerStatus.signaled
        | _ => none
    match parseMode mode kind spawnok status stderr, writes.toNat?, fault, pstatus with
    | some m, some w, some f, some ps =>
      let evs := PagerTail.runFull ⟨m, pager = "1", w, f⟩ ps
      let code := match evs.getLast? with
        | some (.exit c) => s!"{c}"
        | _ => "-"
      let rows := Generated.PagerTail.dropStmts.map (fun r => s!"{",".intercalate r.1}|{r.2.1}")
      s!"ok {code} {if evs.contains Event.message then 0 else 1} {showEvents evs} {hexOfString ("\n".intercalate rows)}"
    | _, _, _, _ => "ERR"
  | ["pager.select", cfg, dp, bp, p, self, ver, q] =>
    match optCmd cfg, optCmd dp, optCmd bp, optCmd p, stringOfField self with
    | some cfg, some dp, some bp, some p, some self =>
      let ver : Option Nat := if ver = "-" then none else ver.toNat?
      let bat := batExecutable bp p self
      let e : Env := ⟨cfg, dp, bat⟩
      let src := match select e with
        | some s => (match s.source with
          | .config => "config" | .deltaPager => "DELTA_PAGER" | .batEnv => "bat" | .default => "default")
        | none => "unknown"
      let batS := match bat with
        | some c => hexOfString ("\n".intercalate c)
        | none => "-"
      match launch e ver (q = "1") with
      | .stdout => s!"ok {src} stdout x x {batS}"
      | .refused => s!"ok {src} refused x x {batS}"
      | .less path argv => s!"ok {src} less {hexOfString path} {hexOfString ("\n".intercalate argv)} {batS}"
      | .other path argv => s!"ok {src} other {hexOfString path} {hexOfString ("\n".intercalate argv)} {batS}"
      | .unknown => "PANIC model-shape-unknown"
    | _, _, _, _, _ => "ERR"
  | ["pager.exits"] =>
    let a := Generated.PagerShape.setupPhaseExits.map (fun e => s!"{e.1}|{e.2.1}|{e.2.2}")
    let b := Generated.PagerShape.renderPhaseExits.map (fun e => s!"{e.1}|{e.2}")
    let c := Generated.PagerShape.ownPagerExits.map (fun e => s!"{e.1}|{e.2.1}|{e.2.2.1}|{e.2.2.2}")
    s!"ok {hexOfString ("\n".intercalate a)} {hexOfString ("\n".intercalate b)} {hexOfString ("\n".intercalate c)}"
  | ["pager.navsetup", nav, st, rc] =>
    let r : Option RegexOpt := match rc with
      | "none" => some .unset | "empty" => some .empty | "nonempty" => some .nonempty | _ => none
    match r with
    | none => "ERR"
    | some r =>
      let o : NavOpt := ⟨nav = "1", st = "1", r⟩
      let v := match configNavigateRegex o with
        | some .none => "none" | some .someEmpty => "some-empty" | some .given => "given"
        | some .default => "default" | none => "unknown"
      match lessSetup o with
      | .ok h extra => s!"ok {v} {if h then 1 else 0} {hexOfString ("\n".intercalate extra)}"
      | .panic f => s!"PANIC {f} {v}"
      | .unknown => "PANIC model-shape-unknown"
  | _ => "ERR"

def main : IO Unit := serve stepPager
