import DeltaModel.Proto
import DeltaModel.Wrap
import DeltaModel.SideBySide
import DeltaModel.MaxLineLength
/-
Model driver for C07 (`drv_wrap`): answers the same `wrap.*` requests as
/repo/src/verif_hooks/wrap.rs, by running the model functions of DeltaModel.Wrap and
DeltaModel.SideBySide.
-/
open Proto Wrap SideBySide

abbrev P := StateT (List String) Option

def pNext : P String := fun s =>
  match s with
  | [] => none
  | f :: r => some (f, r)

def pNum : P Nat := do
  let f ← pNext
  match natOfField f with
  | some n => pure n
  | none => failure

def pStr : P String := do
  let f ← pNext
  match stringOfField f with
  | some n => pure n
  | none => failure

def pOptNum : P (Option Nat) := do
  let f ← pNext
  if f = "-" then pure none
  else match natOfField f with
    | some n => pure (some n)
    | none => failure

def pRep {α} (p : P α) : Nat → P (List α)
  | 0 => pure []
  | n + 1 => do
    let a ← p
    let r ← pRep p n
    pure (a :: r)

def pG : P G := do
  let s ← pStr
  let w ← pNum
  pure ⟨s, w⟩

def pClusters : P (List G) := do
  let k ← pNum
  pRep pG k

def pSec : P Sec := do
  let st ← pNum
  let gs ← pClusters
  pure (st, gs)

def pSections : P (List Sec) := do
  let n ← pNum
  pRep pSec n

def pCfg : P Cfg := do
  let maxLines ← pNum
  let permille ← pNum
  let l ← pG
  let r ← pG
  let p ← pG
  pure { leftSym := l, rightSym := r, rightPrefixSym := p, permille := permille, maxLines := maxLines }

def pItem : P Item := do
  let k ← pNext
  if k = "A" then do
    let s ← pStr
    pure (.ansi s)
  else if k = "T" then do
    let gs ← pClusters
    pure (.text gs)
  else failure

def pItems : P (List Item) := do
  let n ← pNum
  pRep pItem n

def pEnd : P Unit := fun s => if s.isEmpty then some ((), s) else none

def secText (s : Sec) : String := String.join (s.2.map (·.s))

def fmtRows (rows : List Row) : String :=
  String.join (rows.map fun row =>
    " R" ++ String.join (row.map fun s => " " ++ toString s.1 ++ ":" ++ hexOfString (secText s)))

def errLine : Err → String
  | .hang => "HANG"
  | .panic m => "PANIC " ++ hexOfString m

def itemsText (l : List Item) : String :=
  String.join (l.map fun
    | .ansi s => s
    | .text gs => String.join (gs.map (·.s)))

def fillTag : Nat := 1000
def hintTag : Nat := 1001

/-- One line of a block request. -/
structure BLine where
  mustWrap : Bool
  syn : List Sec
  dif : List Sec

def pBLine : P BLine := do
  let mw ← pNum
  let syn ← pSections
  let dif ← pSections
  pure { mustWrap := mw != 0, syn := syn, dif := dif }

def pBLines : P (List BLine) := do
  let n ← pNum
  pRep pBLine n

def pAlignEntry : P (Option Nat × Option Nat) := do
  let m ← pOptNum
  let p ← pOptNum
  pure (m, p)

/-- `wrap_syntax_and_diff` for every line of one side: syntax rows, diff rows, row counts.
The `assert_eq!` on differing row counts is a panic. In the Rust the lines are wrapped lazily
while walking the alignment; wrapping does not depend on the walk, so it is done up front,
and a panic inside the walk takes precedence only in the order of the walk: see `blockModel`. -/
def wrapSide (cfg : Cfg) (lw : Nat) (ls : List BLine) :
    List (Except Err (List Row × List Row)) :=
  ls.map fun l =>
    match wrapIfTooLong cfg l.mustWrap l.syn lw fillTag (some hintTag) with
    | .error e => .error e
    | .ok s =>
      match wrapIfTooLong cfg l.mustWrap l.dif lw fillTag none with
      | .error e => .error e
      | .ok d =>
        if s.length = d.length then .ok (s, d)
        else .error (.panic "syntax and diff wrapping differs")

/-- The walk of `wrap_minusplus_block` in the order of the Rust code: per alignment entry, for
the left then the right side, the index assert, the iterator `next()`, the wrapping of that line
(which may not terminate) and the row-count assert. Returns the first failure met. -/
def firstFailure (al : Align) (ms ps : List (Except Err (List Row × List Row))) (b : BSt) : Option Err :=
  match al with
  | [] => none
  | e :: r =>
    let side := fun (idx : Option Nat) (expected : Nat) (remaining : List Nat)
        (res : List (Except Err (List Row × List Row))) =>
      match idx with
      | none => (none : Option Err)
      | some i =>
        if i ≠ expected then some (.panic "bad alignment index")
        else if remaining.isEmpty then some (.panic "bad wrap info")
        else match res[expected]? with
          | some (.error x) => some x
          | _ => none
    match side e.1 b.mExp b.mc ms with
    | some x => some x
    | none =>
      match side e.2 b.pExp b.pc ps with
      | some x => some x
      | none =>
        match blockStep b e with
        | .error x => some x
        | .ok b' => firstFailure r ms ps b'

def okRows (l : List (Except Err (List Row × List Row))) : List (List Row × List Row) :=
  l.filterMap fun | .ok x => some x | .error _ => none

def blockModel (cfg : Cfg) (lwL lwR : Nat) (al : Align) (ml pl : List BLine) : String :=
  let ms := wrapSide cfg lwL ml
  let ps := wrapSide cfg lwR pl
  -- row counts for the walk; a failing line counts as 1 row (the walk stops there anyway)
  let cnt := fun (l : List (Except Err (List Row × List Row))) =>
    l.map fun | .ok x => x.1.length | .error _ => 1
  match firstFailure al ms ps (initB (cnt ms) (cnt ps)) with
  | some e => errLine e
  | none =>
    match wrapBlock al (cnt ms) (cnt ps) with
    | .error e => errLine e
    | .ok (al', sl, sr) =>
      let o := fun (x : Option Nat) => match x with | some v => toString v | none => "-"
      let used := fun (side : Bool) => (al.filter fun e => if side then e.1.isSome else e.2.isSome).length
      let bits := fun (l : List Bool) => String.join (l.map fun b => if b then "1" else "0")
      let msr := (okRows ms).take (used true)
      let psr := (okRows ps).take (used false)
      "ok A " ++ toString al'.length ++ String.join (al'.map fun e => " " ++ o e.1 ++ " " ++ o e.2)
        ++ " SL x" ++ bits sl ++ " SR x" ++ bits sr
        ++ " SYNL" ++ fmtRows (msr.flatMap (·.1)) ++ " DIFL" ++ fmtRows (msr.flatMap (·.2))
        ++ " SYNR" ++ fmtRows (psr.flatMap (·.1)) ++ " DIFR" ++ fmtRows (psr.flatMap (·.2))

def argValue (args : List String) (name : String) : Option String :=
  match args with
  | a :: b :: r => if a = name then some b else argValue (b :: r) name
  | _ => none

def run {α} (p : P α) (fs : List String) : Option α :=
  match p fs with
  | some (a, _) => some a
  | none => none

def stepWrap (line : String) : String :=
  match fields line with
  | "wrap.line" :: fs =>
    let p : P String := do
      let lw ← pNum
      let cfg ← pCfg
      let fill ← pNum
      let hint ← pOptNum
      let secs ← pSections
      pEnd
      pure (match wrapLine cfg secs lw fill hint with
        | .ok rows => "ok" ++ fmtRows rows
        | .error e => errLine e)
    (run p fs).getD "ERR"
  | "wrap.block" :: fs =>
    let p : P String := do
      let cfg ← pCfg
      let lwL ← pNum
      let lwR ← pNum
      let n ← pNum
      let al ← pRep pAlignEntry n
      let ml ← pBLines
      let pl ← pBLines
      pEnd
      pure (blockModel cfg lwL lwR al ml pl)
    (run p fs).getD "ERR"
  | "wrap.measure" :: fs =>
    let p : P String := do
      let s ← pItems
      pEnd
      pure ("ok " ++ toString (measure s))
    (run p fs).getD "ERR"
  | "wrap.truncate" :: fs =>
    let p : P String := do
      let dw ← pNum
      let fill ← pNum
      let s ← pItems
      let tail ← pItems
      pEnd
      pure (match truncateImpl s dw tail (if fill != 0 then some spaceG else none) with
        | .ok out => "ok " ++ hexOfString (itemsText out)
        | .error e => errLine e)
    (run p fs).getD "ERR"
  | "wrap.pad_panel" :: side :: fs =>
    let p : P String := do
      let pw ← pNum
      let s ← pItems
      let tail ← pItems
      pEnd
      pure (match padPanel pw s tail (if side = "l" then Fill.spaces else Fill.none) with
        | .ok out => "ok " ++ hexOfString (itemsText out)
        | .error e => errLine e)
    (run p fs).getD "ERR"
  | "wrap.panels" :: fs =>
    match fs.mapM stringOfField with
    | none => "ERR"
    | some args =>
      match (argValue args "--width").bind String.toNat? with
      | none => "ERR"
      | some w =>
        let ansi := match argValue args "--line-fill-method" with
          | some "spaces" => false
          | _ => true
        let pw := panelWidths w ansi
        "ok " ++ toString pw.1 ++ " " ++ toString pw.2 ++ " " ++ toString w
  | "wrap.maxlen" :: fs =>
    -- wrap.maxlen <side-by-side 0|1> <--wrap-max-lines: number, or - for unlimited> <--max-line-length>
    --   <available terminal width> <decorations width: N for Fixed(N), - for Variable>
    --   ->  ok <Config::max_line_length>   (Config::from + config_max_line_length)
    let p : P String := do
      let sbs ← pNum
      let wml ← pOptNum
      let mll ← pNum
      let w ← pNum
      let fw ← pOptNum
      pEnd
      pure ("ok " ++ toString (MaxLen.configMaxLen (sbs == 1) wml mll w fw))
    (run p fs).getD "ERR"
  | _ => "ERR"

def main : IO Unit := serve stepWrap
