import DeltaModel.Proto
import DeltaModel.Wrap
import DeltaModel.SideBySide
import DeltaModel.MaxLineLength
import DeltaModel.SbsRowRun
/-
Model driver for C07 (`drv_wrap`): answers the same `wrap.*` requests as
/repo/src/verif_hooks/wrap.rs, by running the model functions of DeltaModel.Wrap and
DeltaModel.SideBySide.
-/
open Proto Wrap SideBySide

abbrev P := StateT (List String) Option

def pNext : P String := fun s =>
  match s with
  | [] => none
  | f :: r => some (f, r)

def pNum : P Nat := do
  let f ← pNext
  match natOfField f with
  | some n => pure n
  | none => failure

def pStr : P String := do
  let f ← pNext
  match stringOfField f with
  | some n => pure n
  | none => failure

def pOptNum : P (Option Nat) := do
  let f ← pNext
  if f = "-" then pure none
  else match natOfField f with
    | some n => pure (some n)
    | none => failure

def pRep {α} (p : P α) : Nat → P (List α)
  | 0 => pure []
  | n + 1 => do
    let a ← p
    let r ← pRep p n
    pure (a :: r)

def pG : P G := do
  let s ← pStr
  let w ← pNum
  pure ⟨s, w⟩

def pClusters : P (List G) := do
  let k ← pNum
  pRep pG k

def pSec : P Sec := do
  let st ← pNum
  let gs ← pClusters
  pure (st, gs)

def pSections : P (List Sec) := do
  let n ← pNum
  pRep pSec n

def pCfg : P Cfg := do
  let maxLines ← pNum
  let permille ← pNum
  let l ← pG
  let r ← pG
  let p ← pG
  pure { leftSym := l, rightSym := r, rightPrefixSym := p, permille := permille, maxLines := maxLines }

def pItem : P Item := do
  let k ← pNext
  if k = "A" then do
    let s ← pStr
    pure (.ansi s)
  else if k = "T" then do
    let gs ← pClusters
    pure (.text gs)
  else failure

def pItems : P (List Item) := do
  let n ← pNum
  pRep pItem n

def pEnd : P Unit := fun s => if s.isEmpty then some ((), s) else none

def secText (s : Sec) : String := String.join (s.2.map (·.s))

def fmtRows (rows : List Row) : String :=
  String.join (rows.map fun row =>
    " R" ++ String.join (row.map fun s => " " ++ toString s.1 ++ ":" ++ hexOfString (secText s)))

def errLine : Err → String
  | .hang => "HANG"
  | .panic m => "PANIC " ++ hexOfString m

def itemsText (l : List Item) : String :=
  String.join (l.map fun
    | .ansi s => s
    | .text gs => String.join (gs.map (·.s)))

def fillTag : Nat := 1000
def hintTag : Nat := 1001

/-- One line of a block request. -/
structure BLine where
  mustWrap : Bool
  syn : List Sec
  dif : List Sec

def pBLine : P BLine := do
  let mw ← pNum
  let syn ← pSections
  let dif ← pSections
  pure { mustWrap := mw != 0, syn := syn, dif := dif }

def pBLines : P (List BLine) := do
  let n ← pNum
  pRep pBLine n

def pAlignEntry : P (Option Nat × Option Nat) := do
  let m ← pOptNum
  let p ← pOptNum
  pure (m, p)

/-- `wrap_syntax_and_diff` for every line of one side: syntax rows, diff rows, row counts.
The `assert_eq!` on differing row counts is a panic. In the Rust the lines are wrapped lazily
while walking the alignment; wrapping does not depend on the walk, so it is done up front,
and a panic inside the walk takes precedence only in the order of the walk: see `blockModel`. -/
def wrapSide (cfg : Cfg) (lw : Nat) (ls : List BLine) :
    List (Except Err (List Row × List Row)) :=
  ls.map fun l =>
    match wrapIfTooLong cfg l.mustWrap l.syn lw fillTag (some hintTag) with
    | .error e => .error e
    | .ok s =>
      match wrapIfTooLong cfg l.mustWrap l.dif lw fillTag none with
      | .error e => .error e
      | .ok d =>
        if s.length = d.length then .ok (s, d)
        else .error (.panic "syntax and diff wrapping differs")

/-- The walk of `wrap_minusplus_block` in the order of the Rust code: per alignment entry, for
the left then the right side, the index assert, the iterator `next()`, the wrapping of that line
(which may not terminate) and the row-count assert. Returns the first failure met. -/
def firstFailure (al : Align) (ms ps : List (Except Err (List Row × List Row))) (b : BSt) : Option Err :=
  match al with
  | [] => none
  | e :: r =>
    let side := fun (idx : Option Nat) (expected : Nat) (remaining : List Nat)
        (res : List (Except Err (List Row × List Row))) =>
      match idx with
      | none => (none : Option Err)
      | some i =>
        if i ≠ expected then some (.panic "bad alignment index")
        else if remaining.isEmpty then some (.panic "bad wrap info")
        else match res[expected]? with
          | some (.error x) => some x
          | _ => none
    match side e.1 b.mExp b.mc ms with
    | some x => some x
    | none =>
      match side e.2 b.pExp b.pc ps with
      | some x => some x
      | none =>
        match blockStep b e with
        | .error x => some x
        | .ok b' => firstFailure r ms ps b'

def okRows (l : List (Except Err (List Row × List Row))) : List (List Row × List Row) :=
  l.filterMap fun | .ok x => some x | .error _ => none

def blockModel (cfg : Cfg) (lwL lwR : Nat) (al : Align) (ml pl : List BLine) : String :=
  let ms := wrapSide cfg lwL ml
  let ps := wrapSide cfg lwR pl
  -- row counts for the walk; a failing line counts as 1 row (the walk stops there anyway)
  let cnt := fun (l : List (Except Err (List Row × List Row))) =>
    l.map fun | .ok x => x.1.length | .error _ => 1
  match firstFailure al ms ps (initB (cnt ms) (cnt ps)) with
  | some e => errLine e
  | none =>
    match wrapBlock al (cnt ms) (cnt ps) with
    | .error e => errLine e
    | .ok (al', sl, sr) =>
      let o := fun (x : Option Nat) => match x with | some v => toString v | none => "-"
      let used := fun (side : Bool) => (al.filter fun e => if side then e.1.isSome else e.2.isSome).length
      let bits := fun (l : List Bool) => String.join (l.map fun b => if b then "1" else "0")
      let msr := (okRows ms).take (used true)
      let psr := (okRows ps).take (used false)
      "ok A " ++ toString al'.length ++ String.join (al'.map fun e => " " ++ o e.1 ++ " " ++ o e.2)
        ++ " SL x" ++ bits sl ++ " SR x" ++ bits sr
        ++ " SYNL" ++ fmtRows (msr.flatMap (·.1)) ++ " DIFL" ++ fmtRows (msr.flatMap (·.2))
        ++ " SYNR" ++ fmtRows (psr.flatMap (·.1)) ++ " DIFR" ++ fmtRows (psr.flatMap (·.2))

def argValue (args : List String) (name : String) : Option String :=
  match args with
  | a :: b :: r => if a = name then some b else argValue (b :: r) name
  | _ => none

def run {α} (p : P α) (fs : List String) : Option α :=
  match p fs with
  | some (a, _) => some a
  | none => none

def stepWrap (line : String) : String :=
  match fields line with
  | "wrap.line" :: fs =>
    let p : P String := do
      let lw ← pNum
      let cfg ← pCfg
      let fill ← pNum
      let hint ← pOptNum
      let secs ← pSections
      pEnd
      pure (match wrapLine cfg secs lw fill hint with
        | .ok rows => "ok" ++ fmtRows rows
        | .error e => errLine e)
    (run p fs).getD "ERR"
  | "wrap.block" :: fs =>
    let p : P String := do
      let cfg ← pCfg
      let lwL ← pNum
      let lwR ← pNum
      let n ← pNum
      let al ← pRep pAlignEntry n
      let ml ← pBLines
      let pl ← pBLines
      pEnd
      pure (blockModel cfg lwL lwR al ml pl)
    (run p fs).getD "ERR"
  | "wrap.measure" :: fs =>
    let p : P String := do
      let s ← pItems
      pEnd
      pure ("ok " ++ toString (measure s))
    (run p fs).getD "ERR"
  | "wrap.truncate" :: fs =>
    let p : P String := do
      let dw ← pNum
      let fill ← pNum
      let s ← pItems
      let tail ← pItems
      pEnd
      pure (match truncateImpl s dw tail (if fill != 0 then some spaceG else none) with
        | .ok out => "ok " ++ hexOfString (itemsText out)
        | .error e => errLine e)
    (run p fs).getD "ERR"
  | "wrap.pad_panel" :: side :: fs =>
    let p : P String := do
      let pw ← pNum
      let s ← pItems
      let tail ← pItems
      pEnd
      pure (match padPanel pw s tail (if side = "l" then Fill.spaces else Fill.none) with
        | .ok out => "ok " ++ hexOfString (itemsText out)
        | .error e => errLine e)
    (run p fs).getD "ERR"
  | "wrap.panels" :: fs =>
    match fs.mapM stringOfField with
    | none => "ERR"
    | some args =>
      match (argValue args "--width").bind String.toNat? with
      | none => "ERR"
      | some w =>
        let ansi := match argValue args "--line-fill-method" with
          | some "spaces" => false
          | _ => true
        let pw := panelWidths w ansi
        "ok " ++ toString pw.1 ++ " " ++ toString pw.2 ++ " " ++ toString w
  | "wrap.maxlen" :: fs =>
    -- wrap.maxlen <side-by-side 0|1> <--wrap-max-lines: number, or - for unlimited> <--max-line-length>
    --   <available terminal width> <decorations width: N for Fixed(N), - for Variable>
    --   ->  ok <Config::max_line_length>   (Config::from + config_max_line_length)
    let p : P String := do
      let sbs ← pNum
      let wml ← pOptNum
      let mll ← pNum
      let w ← pNum
      let fw ← pOptNum
      pEnd
      pure ("ok " ++ toString (MaxLen.configMaxLen (sbs == 1) wml mll w fw))
    (run p fs).getD "ERR"
  | _ => "ERR"

/-! ## Session 4 / T3: the composed side-by-side row (`DeltaModel/SbsRow.lean`, `SbsRowRun.lean`) -/

def pFillM : P SbsRow.FillM := do
  let n ← pNum
  if n = 2 then pure .ansi else pure .spaces

def pCw : P (Char × Nat) := do
  let s ← pStr
  let w ← pNum
  match s.toList with
  | [c] => pure (c, w)
  | _ => failure

def pCounted {α} (p : P α) : P (List α) := do
  let n ← pNum
  pRep p n

def pPairNN : P (Nat × Nat) := do
  let a ← pNum
  let b ← pNum
  pure (a, b)

def pSbsBlock : P SbsRow.Block := do
  let k ← pNum
  if k = 0 then do
    let bg ← pNum
    let line ← pClusters
    pure (.zero line (bg != 0))
  else do
    let bgM ← pNum
    let bgP ← pNum
    let minus ← pCounted pClusters
    let plus ← pCounted pClusters
    let al ← pCounted pAlignEntry
    pure (.sub minus plus al (bgM != 0) (bgP != 0))

/-- visible text of a painted line (escape sequences removed) -/
def visibleText (l : List Item) : String :=
  String.join (l.map fun
    | .ansi _ => ""
    | .text gs => String.join (gs.map (·.s)))

def fmtSbsRows (rows : List SbsRow.Row) : String :=
  toString rows.length ++ String.join (rows.map fun r =>
    " " ++ hexOfString (visibleText r.left) ++ " " ++ hexOfString (visibleText r.right))

def mkSbsCfg (pwL pwR : Nat) (lineFill : SbsRow.FillM) (keep bgx : Bool) (fl fr : List LineNumbers.PH) (minW : Nat)
    (cw : List (Char × Nat)) (tail : List Item) : SbsRow.Cfg :=
  { pwL := pwL
    pwR := pwR
    lineFill := lineFill
    keepMarkers := keep
    bgExtends := bgx
    fl := fl
    fr := fr
    minW := minW
    cw := cw
    tail := tail
    ansiSeq := "\x1b[0K" }

def stepSbs (line : String) : Option String :=
  match fields line with
  | "wrap.sbs_hunk" :: fs =>
    -- wrap.sbs_hunk <fixed 0|1> <width> <--line-fill-method option 1 spaces|2 ansi> <config.line_fill_method 1|2>
    --   <keep markers> <bg extends> x<left format> x<right format> <n> {x<char> <width>}* <items truncation symbol>
    --   <WRAPCFG> <pairs> <blocks>
    --   -> ok <panel left> <panel right> <formatted_width left> <right> <nblocks> {<nrows> {x<left panel> x<right panel>}*}* <left> <right>
    let p : P String := do
      let fixed ← pNum
      let w ← pNum
      let optFill ← pFillM
      let cfgFill ← pFillM
      let keep ← pNum
      let bgx ← pNum
      let fmtL ← pStr
      let fmtR ← pStr
      let cw ← pCounted pCw
      let tail ← pItems
      let wcfg ← pCfg
      let pairs ← pCounted pPairNN
      let blocks ← pCounted pSbsBlock
      pEnd
      let pws := SbsRow.panelWidthsV (fixed != 0) w optFill
      let padRight := SbsRow.isOddWithAnsi (fixed != 0) w cfgFill
      pure (match LineNumbers.parseFormat fmtL.toList false, LineNumbers.parseFormat fmtR.toList padRight with
        | .ok fl, .ok fr =>
          match LineNumbers.initializeHunk pairs with
          | .error e => "PANIC " ++ hexOfString e
          | .ok (c0, minW) =>
            let cfg := mkSbsCfg pws.1 pws.2 cfgFill (keep != 0) (bgx != 0) fl fr minW cw tail
            match SbsRow.hunkRows cfg wcfg c0 blocks with
            | .error e => errLine e
            | .ok (c, rows) =>
              s!"ok {pws.1} {pws.2} {SbsRow.formattedWidth fl minW} {SbsRow.formattedWidth fr minW} {rows.length}"
                ++ String.join (rows.map fun b => " " ++ fmtSbsRows b) ++ s!" {c.left} {c.right}"
        | .error e, _ => "PANIC " ++ hexOfString e
        | _, .error e => "PANIC " ++ hexOfString e)
    some ((run p fs).getD "ERR")
  | "wrap.sbs_panel" :: fs =>
    -- wrap.sbs_panel <side 1 left|2 right> <panel width> <is_empty> <has_index> <state code> <fill style has bg>
    --   <bg extends> <should fill 0 No|1 With(Spaces)|2 With(TryAnsiSequence)> <items line> <items truncation symbol>
    --   -> ok x<visible text of the padded panel> <mode 0 none|1 spaces|2 ansi>
    let p : P String := do
      let side ← pNum
      let pw ← pNum
      let isEmpty ← pNum
      let hasIndex ← pNum
      let st ← pNum
      let hasBg ← pNum
      let bgx ← pNum
      let sf ← pNum
      let ln ← pItems
      let tail ← pItems
      pEnd
      let cfg := mkSbsCfg pw pw .spaces false (bgx != 0) [] [] 0 [] tail
      let sd : LineNumbers.Panel := if side = 1 then .left else .right
      let fill := SbsRow.fillFor cfg sd (isEmpty != 0) (hasIndex != 0) (hasBg != 0) (SbsRow.shouldFillOf cfg sf)
      pure (match SbsRow.markerFor cfg (isEmpty != 0) (hasIndex != 0) (LineNumbers.St.ofCode st) with
        | .error e => errLine e
        | .ok mk =>
          match SbsRow.padPanelG cfg pw (ln ++ mk) fill with
          | .error e => errLine e
          | .ok out => "ok " ++ hexOfString (visibleText out) ++ " " ++ toString (SbsRow.modeCode fill))
    some ((run p fs).getD "ERR")
  | _ => none

def stepAll (line : String) : String :=
  match stepSbs line with
  | some r => r
  | none => stepWrap line

def main : IO Unit := serve stepAll
