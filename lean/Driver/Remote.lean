import DeltaModel.Proto
import DeltaModel.Remote
/-!
Model driver for the remote-derived commit link (C19). Not registered as a `lean_exe` (lakefile.toml is not
ours to edit): run with `lake env lean --run Driver/Remote.lean` after `lake build DeltaModel.Remote`.

  remote.commit_url x<origin url> x<hash>   ->  ok none | ok x<variant> x<slug> x<url> | PANIC x<msg>
  remote.link_url <x<configured format>|-> <x<origin url>|-> x<hash>  -> ok none | ok x<url>
-/
open Proto Remote

def hexOfChars (cs : List Char) : String := hexOfString (String.ofList cs)

def optField (f : String) : Option (Option String) :=
  if f == "-" then some none else (stringOfField f).map some

/-- `str::replace` for the one placeholder `{commit}`. -/
partial def replaceCommit (fmt hash : List Char) : List Char :=
  let ph := "{commit}".toList
  let rec go (s : List Char) (acc : List Char) : List Char :=
    match s with
    | [] => acc.reverse
    | c :: cs => if ph.isPrefixOf s then go (s.drop ph.length) (hash.reverse ++ acc) else go cs (c :: acc)
  go fmt []

def step (line : String) : String :=
  match fields line with
  | ["remote.commit_url", url, hash] =>
    match stringOfField url, stringOfField hash with
    | some u, some h =>
      match recognise u.toList with
      | .error e => "PANIC " ++ hexOfString e
      | .ok none => "ok none"
      | .ok (some r) =>
        match commitUrl r h.toList with
        | some l => s!"ok {hexOfChars r.variant} {hexOfChars r.slug} {hexOfChars l}"
        | none => "PANIC " ++ hexOfString "no format arm"
    | _, _ => "ERR"
  | ["remote.link_url", fmt, url, hash] =>
    match optField fmt, optField url, stringOfField hash with
    | some f, some u, some h =>
      match commitLinkUrl replaceCommit (f.map String.toList) (u.map String.toList) h.toList with
      | some l => "ok " ++ hexOfChars l
      | none => "ok none"
    | _, _, _ => "ERR"
  | _ => "ERR"

def main : IO Unit := serve step
