import DeltaModel.Proto
import DeltaModel.Startup
/-!
Model driver for the start-up / option-value model of C03 (`DeltaModel/Startup.lean`). Not registered as a
`lean_exe` (lakefile.toml is not ours to edit): run with `lake env lean --run Driver/Startup.lean`.

`startup.run <width|-> <wrapMaxLines> <maxLineLength> <tabs> <sbs> <ansi> <lnLeft> <lnRight> <tw>`
  strings as `x<hex>` (`-` = `--width` absent), numbers decimal, flags 0 | 1.
  → `ok width=<n|variable> maxlines=<n> left=<n> right=<n> mll=<n> tabbytes=<n>` | `fatal x<msg>` | `PANIC x<msg>`
`startup.width <arg> <tw>`     → `ok <n>` | `fatal …` | `PANIC …`      (`parse_width_specifier`)
`startup.wrapmax <arg>`        → `ok <n>` | …                           (`adapt_wrap_max_lines_argument`)
`startup.mll <maxLines> <maxLineLength> <tw>` → `ok <n>` | …            (`config_max_line_length`)
`startup.tabs <n>`             → `ok <bytes>` | …                       (`TabCfg::new`)
-/
open Proto Startup

def showErr : Err → String
  | .fatal m => "fatal " ++ hexOfString m
  | .panic m => "PANIC " ++ hexOfString m

def showNat : Res Nat → String
  | .ok n => "ok " ++ toString n
  | .error e => showErr e

def optStr (f : String) : Option (Option Str) :=
  if f = "-" then some none else (stringOfField f).map fun s => some s.toList

def stepStartup (line : String) : String :=
  match fields line with
  | ["startup.run", w, wml, mll, tabs, sbs, ansi, l, r, tw] =>
    match optStr w, stringOfField wml, natOfField mll, natOfField tabs, natOfField sbs, natOfField ansi,
          stringOfField l, stringOfField r, natOfField tw with
    | some w, some wml, some mll, some tabs, some sbs, some ansi, some l, some r, some tw =>
      let o : Opts := { width := w, wrapMaxLines := wml.toList, maxLineLength := mll, tabs := tabs,
                        sideBySide := sbs ≠ 0, ansiFill := ansi ≠ 0, lnLeft := l.toList, lnRight := r.toList }
      match startup o tw with
      | .ok c =>
        let ws := match c.width with
          | .fixed n => toString n
          | .variable => "variable"
        s!"ok width={ws} maxlines={c.maxLines} left={c.panels.left} right={c.panels.right} mll={c.maxLineLength} tabbytes={c.tabBytes}"
      | .error e => showErr e
    | _, _, _, _, _, _, _, _, _ => "error bad fields"
  | ["startup.width", a, tw] =>
    match stringOfField a, natOfField tw with
    | some a, some tw => showNat (parseWidthSpecifier a.toList tw)
    | _, _ => "error bad fields"
  | ["startup.wrapmax", a] =>
    match stringOfField a with
    | some a => showNat (adaptWrapMaxLines a.toList)
    | none => "error bad fields"
  | ["startup.mll", ml, mll, tw] =>
    match natOfField ml, natOfField mll, natOfField tw with
    | some ml, some mll, some tw => showNat (configMaxLineLength ml mll tw)
    | _, _, _ => "error bad fields"
  | ["startup.tabs", n] =>
    match natOfField n with
    | some n => showNat (tabCfgNew n)
    | none => "error bad fields"
  | _ => "error unknown op"

def main : IO Unit := Proto.serve stepStartup
