import DeltaModel.Proto
import DeltaModel.Blame
import DeltaModel.BlameFormat
import DeltaModel.BlameFlow
open Proto

/-!
Model driver for C17 (`drv_blame`). Ops mirror /repo/src/verif_hooks/blame.rs; where the
implementation reads its Config, the model request carries the same data explicitly
(palette, parsed format items, separator format, tab width, char-width table).
-/
namespace BlameDrv
open Blame

def strOfField (f : String) : Option Str := (stringOfField f).map String.toList
def hexOfStr (s : Str) : String := hexOfString (String.ofList s)

def optNat (f : String) : Option (Option Nat) :=
  if f == "-" then some none else (f.toNat?).map some

def alignOf (f : String) : Option (Option Align) :=
  if f == "-" then some none
  else if f == "l" then some (some .left)
  else if f == "c" then some (some .center)
  else if f == "r" then some (some .right)
  else none

def fieldOf (f : String) : Option (Option Field) :=
  if f == "-" then some none
  else if f == "t" then some (some .timestamp)
  else if f == "a" then some (some .author)
  else if f == "c" then some (some .commit)
  else none

def itemOf (f : String) : Option Item :=
  match f.splitOn "," with
  | [pre, ph, al, w, p, suf] => do
    let pre ← strOfField pre
    let ph ← fieldOf ph
    let al ← alignOf al
    let w ← optNat w
    let p ← optNat p
    let suf ← strOfField suf
    pure ⟨pre, ph, al, w, p, suf⟩
  | _ => none

def sepOf (f : String) : Option Sep :=
  match f.splitOn "," with
  | [kind, n, pre, w, al, suf] => do
    let n ← n.toNat?
    let kind ← (if kind == "on" then some SepKind.on
                else if kind == "block" then some SepKind.perBlock
                else if kind == "every" then some (SepKind.every n) else none)
    let pre ← strOfField pre
    let w ← optNat w
    let al ← alignOf al
    let suf ← strOfField suf
    pure ⟨kind, pre, w, al, suf⟩
  | _ => none

/-- `-` or `cp:w,cp:w,...`; chars not listed have width 1. -/
def cwOf (f : String) : Option (Char → Nat) :=
  if f == "-" then some (fun _ => 1)
  else do
    let pairs ← (f.splitOn ",").mapM fun e =>
      match e.splitOn ":" with
      | [a, b] => do pure ((← a.toNat?), (← b.toNat?))
      | _ => none
    pure fun c => match pairs.lookup c.toNat with
      | some w => w
      | none => 1

def takeN {α} (n : Nat) (l : List α) : Option (List α × List α) :=
  if l.length < n then none else some (l.take n, l.drop n)

def panicText : Panic → String
  | .unreachable i => s!"delta_unreachable arm {i}"
  | .noArm => "noArm"
  | .emptyPalette => "emptyPalette"
  | .subOverflow => "attempt to subtract with overflow"
  | .alignNone => "alignNone"
  | .modZero => "modZero"

def panicResp (p : Panic) : String := "PANIC " ++ hexOfString (panicText p)

def mode : Nat := Generated.Blame.authorMode
def arith : Nat := Generated.Blame.metaPadArith

def colourField : Option Colour → String
  | some c => hexOfStr c
  | none => "git"

def doParse (line : String) : String :=
  match strOfField line with
  | none => "ERR"
  | some l =>
    match parseBlame mode l with
    | none => "ok none"
    | some r => s!"ok {hexOfStr r.commit} {hexOfStr r.author} {hexOfStr r.ts} {r.lineNumber} {hexOfStr r.code}"

def readPalette (fs : List String) : Option (List Colour × List String) := do
  match fs with
  | [] => none
  | n :: rest =>
    let n ← n.toNat?
    let (ps, rest) ← takeN n rest
    let pal ← ps.mapM strOfField
    pure (pal, rest)

def doColors (fs : List String) : String :=
  let r : Option String := do
    let (pal, rest) ← readPalette fs
    match rest with
    | [] => none
    | n :: ls =>
      let n ← n.toNat?
      if ls.length ≠ n then none else
      let hist ← ls.mapM fun e =>
        match e.splitOn ":" with
        | [k, g] => do pure (k.toList, (← g.toNat?) != 0)
        | _ => none
      match run pal {} hist with
      | .error p => pure (panicResp p)
      | .ok (_, ps) =>
        pure ("ok " ++ " ".intercalate (ps.map fun p =>
          colourField p.colour ++ ":" ++ (if p.isRepeat then "r" else "n")))
  r.getD "ERR"

def readItems (fs : List String) : Option (List Item × List String) := do
  match fs with
  | [] => none
  | n :: rest =>
    let n ← n.toNat?
    let (is, rest) ← takeN n rest
    pure ((← is.mapM itemOf), rest)

def doMeta (fs : List String) : String :=
  let r : Option String := do
    match fs with
    | [] => none
    | cw :: rest =>
      let cw ← cwOf cw
      let (items, rest) ← readItems rest
      match rest with
      | [ts, author, commit] =>
        let ts ← strOfField ts
        let author ← strOfField author
        let commit ← strOfField commit
        match formatMeta arith cw items ts author commit with
        | .error p => pure (panicResp p)
        | .ok m => pure s!"ok {hexOfStr m} {strWidth cw m}"
      | _ => none
  r.getD "ERR"

def doNumber (fs : List String) : String :=
  let r : Option String := do
    match fs with
    | [sep, n, rep] =>
      let sep ← sepOf sep
      let n ← n.toNat?
      let rep ← rep.toNat?
      match fmtLineNumber sep n (rep != 0) with
      | .error p => pure (panicResp p)
      | .ok (a, b, c) => pure s!"ok {hexOfStr a} {hexOfStr b} {hexOfStr c}"
    | _ => none
  r.getD "ERR"

def doStream (fs : List String) : String :=
  let r : Option String := do
    let (pal, rest) ← readPalette fs
    let (items, rest) ← readItems rest
    match rest with
    | sep :: tab :: cw :: n :: ls =>
      let sep ← sepOf sep
      let tab ← tab.toNat?
      let cw ← cwOf cw
      let n ← n.toNat?
      if ls.length ≠ n then none else
      let lines ← ls.mapM fun e =>
        match e.splitOn ":" with
        | [g, l] => do pure ((← strOfField l), (← g.toNat?) != 0)
        | _ => none
      let cfg : StreamCfg := ⟨mode, arith, pal, items, sep, tab, cw, id⟩
      -- `handle_blame_line` with the flags of the generated data-flow table (`BlameFlow.streamF`); a table
      -- with a condition the translator could not read cannot be executed
      if !BlameFlow.executable then
        pure ("PANIC " ++ hexOfString ("is_repeat data flow not translated: " ++
          "; ".intercalate Generated.BlameFlow.opaqueText))
      else
      match BlameFlow.streamF cfg (fun _ => false) {} lines with
      | .error (.base p) => pure (panicResp p)
      | .error .arith => pure ("PANIC " ++ hexOfString "usize overflow in the is_repeat arithmetic")
      | .ok outs =>
        pure (("ok " ++ " ".intercalate (outs.zip lines |>.map fun (o, (l, _)) =>
          match o with
          | .raw => "0,-," ++ hexOfStr l
          | .row c _ _ row => "1," ++ colourField c ++ "," ++ hexOfStr row.text)).trimAsciiEnd.toString)
    | _ => none
  r.getD "ERR"

def alignCode : Option Align → String
  | some .left => "l" | some .center => "c" | some .right => "r" | none => "-"
def fieldCode : Option Field → String
  | some .timestamp => "t" | some .author => "a" | some .commit => "c" | none => "-"
def optNatCode : Option Nat → String
  | some n => toString n | none => "-"
def itemCode (it : Item) : String :=
  ",".intercalate [hexOfStr it.pre, fieldCode it.ph, alignCode it.align, optNatCode it.width,
    optNatCode it.prec, hexOfStr it.suf]

def fmtErrText : PF.FmtErr → String
  | .badWidth => "Invalid width in format string"
  | .badPrecision => "Invalid precision in format string"
  | .unknownLabel => "Unexpected `git blame` input"

/-- `blame.format_data x<fmt>`: the model's own reading of a `--blame-format` string, in the form the
implementation's `blame.format_data` answers. -/
def doFormatData (f : String) : String :=
  match strOfField f with
  | none => "ERR"
  | some l =>
    match PF.parseBlameFormat l with
    | .error e => "PANIC " ++ hexOfString (fmtErrText e)
    | .ok items => s!"ok {items.length} " ++ " ".intercalate (items.map itemCode)

def labelSet : String → Option (List Str)
  | "blame" => some Generated.BlameFormat.blameLabels
  | "sep" => some Generated.BlameFormat.separatorLabels
  | "linenum" => some Generated.BlameFormat.lineNumberLabels
  | _ => none

/-- `blame.parse_format <blame|sep|linenum> x<fmt>`: `parse_line_number_format` with the regex of that
label set: `ok <k> {x<prefix> <x<label>|-> <l|c|r|-> <width|-> <precision|-> x<type> x<suffix>}*`. -/
def doParseFormat (ls f : String) : String :=
  match labelSet ls, strOfField f with
  | some labels, some l =>
    match PF.parseFormat labels l with
    | .error e => "PANIC " ++ hexOfString (fmtErrText e)
    | .ok items =>
      s!"ok {items.length}" ++ String.join (items.map fun it =>
        " " ++ " ".intercalate [hexOfStr it.pre, (match it.label with | some lab => hexOfStr lab | none => "-"),
          alignCode it.align, optNatCode it.width, optNatCode it.prec, hexOfStr it.ty, hexOfStr it.suf])
  | _, _ => "ERR"

def step (line : String) : String :=
  match fields line with
  | ["blame.parse", l] => doParse l
  | ["blame.format_data", f] => doFormatData f
  | ["blame.parse_format", ls, f] => doParseFormat ls f
  | "blame.colors" :: fs => doColors fs
  | "blame.meta" :: fs => doMeta fs
  | "blame.number" :: fs => doNumber fs
  | "blame.stream" :: fs => doStream fs
  | ["blame.arms_total"] =>
    -- does the generated `get_color` table contain a delta_unreachable arm?
    if Generated.Blame.getColorArms.any (fun a => a.2.2.2 == 4) then "ok partial" else "ok total"
  | ["blame.default_items"] =>
    s!"ok {defaultItems.length} " ++ " ".intercalate (defaultItems.map itemCode)
  | ["blame.variant"] => s!"ok {mode} {arith}"
  | ["blame.flow"] =>
    -- the generated data flow of `is_repeat`: source text, registers, untranslated conditions
    s!"ok {hexOfString Generated.BlameFlow.isRepeatSource} {Generated.BlameFlow.numRegs.length} " ++
      s!"{Generated.BlameFlow.strRegs.length} {Generated.BlameFlow.opaqueText.length}"
  | _ => "ERR"

end BlameDrv

def main : IO Unit := serve BlameDrv.step
