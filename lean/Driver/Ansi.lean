import DeltaModel.Proto
import DeltaModel.Ansi
import DeltaModel.Links
import DeltaModel.Ingest
/-!
Model driver `drv_ansi`: answers the same `ansi.*` requests as `/repo/src/verif_hooks/ansi.rs`.
Unicode data (string widths, grapheme clusters) arrive as tables in the request; a missing entry
gives the sentinel width 1000003 / a single cluster (visible as a disagreement).
-/
open Proto Ansi

namespace DrvAnsi

def encColor : Option Color → String
  | none => "_"
  | some (.named n) => s!"n{n}"
  | some (.fixed n) => s!"f{n}"
  | some (.rgb r g b) => s!"r{r}.{g}.{b}"

def bit (b : Bool) : String := if b then "1" else "0"

def encStyle (s : Style) : String :=
  bit s.bold ++ bit s.dimmed ++ bit s.italic ++ bit s.underline ++ bit s.blink ++ bit s.reverse ++
    bit s.hidden ++ bit s.strike ++ "," ++ encColor s.fg ++ "," ++ encColor s.bg

def decColor (s : String) : Option (Option Color) :=
  match s.toList with
  | ['_'] => some none
  | 'n' :: r => (String.ofList r).toNat?.map fun n => some (.named n)
  | 'f' :: r => (String.ofList r).toNat?.map fun n => some (.fixed n)
  | 'r' :: r =>
    match (String.ofList r).splitOn "." |>.map String.toNat? with
    | [some a, some b, some c] => some (some (.rgb a b c))
    | _ => none
  | _ => none

def decStyle (s : String) : Option Style :=
  match s.splitOn "," with
  | [flags, fg, bg] =>
    match flags.toList.map (· == '1'), decColor fg, decColor bg with
    | [a, b, c, d, e, f, g, h], some fg, some bg =>
      some { bold := a, dimmed := b, italic := c, underline := d, blink := e, reverse := f,
             hidden := g, strike := h, fg := fg, bg := bg }
    | _, _, _ => none
  | _ => none

def encElement (e : Element) : String :=
  match e.kind with
  | .sgr ps => s!"S:{e.start}:{e.stop}:{encStyle (sgrToStyle ps)}"
  | .csi => s!"C:{e.start}:{e.stop}"
  | .esc => s!"E:{e.start}:{e.stop}"
  | .osc => s!"O:{e.start}:{e.stop}"
  | .text => s!"T:{e.start}:{e.stop}"

def okList (xs : List String) : String :=
  if xs.isEmpty then "ok" else "ok " ++ " ".intercalate xs

def exc (r : Except String String) : String :=
  match r with
  | .ok s => s
  | .error m => "PANIC " ++ hexOfString m

/-- Parse `<n> (<xtext> <width>)*n`, returning the table and the remaining fields. -/
def widthTable : Nat → List String → Option (List (Bytes × Nat) × List String)
  | 0, rest => some ([], rest)
  | n + 1, t :: w :: rest => do
    let t ← bytesOfField t
    let w ← natOfField w
    let (tab, rest) ← widthTable n rest
    pure ((t, w) :: tab, rest)
  | _, _ => none

def takeFields : Nat → List String → Option (List Bytes × List String)
  | 0, rest => some ([], rest)
  | n + 1, g :: rest => do
    let g ← bytesOfField g
    let (gs, rest) ← takeFields n rest
    pure (g :: gs, rest)
  | _, _ => none

/-- Parse `<n> (<xtext> <k> <xg>*k)*n`. -/
def graphemeTable : Nat → List String → Option (List (Bytes × List Bytes) × List String)
  | 0, rest => some ([], rest)
  | n + 1, t :: k :: rest => do
    let t ← bytesOfField t
    let k ← natOfField k
    let (gs, rest) ← takeFields k rest
    let (tab, rest) ← graphemeTable n rest
    pure ((t, gs) :: tab, rest)
  | _, _ => none

def lookupW (tab : List (Bytes × Nat)) (t : Bytes) : Nat :=
  match tab.find? (·.1 == t) with
  | some (_, w) => w
  | none => if t.isEmpty then 0 else 1000003

def lookupG (tab : List (Bytes × List Bytes)) (t : Bytes) : List Bytes :=
  match tab.find? (·.1 == t) with
  | some (_, gs) => gs
  | none => if t.isEmpty then [] else [t]

def tables (fs : List String) : Option Uni :=
  match fs with
  | nW :: rest => do
    let nW ← natOfField nW
    let (wt, rest) ← widthTable nW rest
    match rest with
    | [] => pure { width := lookupW wt, graphemes := lookupG [] }
    | nG :: rest => do
      let nG ← natOfField nG
      let (gt, rest) ← graphemeTable nG rest
      if rest.isEmpty then pure { width := lookupW wt, graphemes := lookupG gt } else none
  | [] => none

/-- Parse the text of CSI parameters (`1;38:2::1:2:3;4`) by running the model's own parser. -/
def sgrKindOf (params : Bytes) : Option (List (List Nat)) :=
  match elements ([0x1b, 0x5b] ++ params ++ [0x6d]) with
  | e :: _ => (match e.kind with | .sgr ps => some ps | _ => none)
  | [] => none

def encRColor : RColor → String
  | .default => "_"
  | .palette n => s!"p{n}"
  | .rgb r g b => s!"r{r}.{g}.{b}"

def encRendition (r : Rendition) : String :=
  bit r.bold ++ bit r.dim ++ bit r.italic ++ bit r.underline ++ bit r.blink ++ bit r.reverse ++
    bit r.hidden ++ bit r.strike ++ "," ++ encRColor r.fg ++ "," ++ encRColor r.bg

def decStyles : List String → Option (List Style)
  | [] => some []
  | s :: r => do
    let s ← decStyle s
    let r ← decStyles r
    pure (s :: r)

/-! ### `Links` ops. Conventions: `-` = none; the absolute path of a file is given by the caller
(`-` when none can be formed), the link format and host name explicitly. -/

def optBytes (f : String) : Option (Option Bytes) :=
  if f == "-" then some none else (bytesOfField f).map some

def optNat (f : String) : Option (Option Nat) :=
  if f == "-" then some none else (natOfField f).map some

open Links in
/-- A `Cfg` whose `absolute_path` answers from a table (`-` = cwd unknown: every lookup fails). -/
def mkCfg (fmt : Bytes) (host : Option Bytes) (cf : CommitFmt) (abs : List (Bytes × Option Bytes)) : Cfg :=
  let known := abs.all fun (_, p) => p.isSome
  { fileFmt := fmt, host := host, commitFmt := cf,
    path := { cwdOfDelta := if known then some [] else none, cwdOfUserShell := none, relativeToCwd := false,
              join := fun _ rel => match abs.find? (·.1 == rel) with
                | some (_, some p) => p
                | _ => rel } }

def parseSpans : List String → Option (List (Nat × Nat))
  | [] => some []
  | f :: rest => do
    match f.splitOn ":" with
    | [a, b] =>
      let a ← a.toNat?
      let b ← b.toNat?
      let r ← parseSpans rest
      pure ((a, b) :: r)
    | _ => none

open Links in
def commitFmtOf (kind : String) (arg : Bytes) : Option CommitFmt :=
  match kind with
  | "template" => some (.template arg)
  | "github" => some (.remote (.github arg))
  | "gitlab" => some (.remote (.gitlab arg))
  | "sourcehut" => some (.remote (.sourcehut arg))
  | "codeberg" => some (.remote (.codeberg arg))
  | "none" => some .none
  | _ => none

open Links in
def stepLinks (line : String) : String :=
  match fields line with
  | ["links.osc8", url, text] =>
    match bytesOfField url, bytesOfField text with
    | some u, some t => "ok " ++ hexOfBytes (osc8 u t)
    | _, _ => "ERR"
  -- links.file_link <fmt> <host|-> <abs> <line|-> <text>
  | ["links.file_link", fmt, host, abs, ln, text] =>
    match bytesOfField fmt, optBytes host, bytesOfField abs, optNat ln, bytesOfField text with
    | some fmt, some host, some abs, some ln, some text => "ok " ++ hexOfBytes (fileLink fmt host abs ln text)
    | _, _, _, _, _ => "ERR"
  -- links.commit_line <kind> <arg> <line> <span>*
  | "links.commit_line" :: kind :: arg :: l :: spans =>
    match bytesOfField arg, bytesOfField l, parseSpans spans with
    | some arg, some l, some spans =>
      match commitFmtOf kind arg with
      | some cf => exc ((formatCommitLine cf spans l).map fun r => "ok " ++ hexOfBytes r)
      | none => "ERR"
    | _, _, _ => "ERR"
  -- links.line_number <links> <fmt> <host|-> <abs|-> <n|-> <file|-> <padded> <blank>
  | ["links.line_number", links, fmt, host, abs, n, file, padded, blank] =>
    match natOfField links, bytesOfField fmt, optBytes host, optBytes abs, optNat n, optBytes file,
      bytesOfField padded, bytesOfField blank with
    | some links, some fmt, some host, some abs, some n, some file, some padded, some blank =>
      let c := mkCfg fmt host .none [(file.getD [], abs)]
      "ok " ++ hexOfBytes (formatLineNumber c (links == 1) n file (fun _ => padded) blank)
    | _, _, _, _, _, _, _, _ => "ERR"
  -- links.file_path <links> <fmt> <host|-> <abs|-> <file> <line|-> <painted>
  | ["links.file_path", links, fmt, host, abs, file, ln, painted] =>
    match natOfField links, bytesOfField fmt, optBytes host, optBytes abs, bytesOfField file, optNat ln,
      bytesOfField painted with
    | some links, some fmt, some host, some abs, some file, some ln, some painted =>
      let c := mkCfg fmt host .none [(file, abs)]
      "ok " ++ hexOfBytes (filePathWithLineNumber c (links == 1) file ln painted)
    | _, _, _, _, _, _, _ => "ERR"
  -- links.diff_stat <links> <fmt> <host|-> <abs of path in repo|-> <abs of relative path|-> <path in repo>
  --                 <relative path> <suffix> <align width>
  | ["links.diff_stat", links, fmt, host, abs, absRel, path, rel, suffix, w] =>
    match natOfField links, bytesOfField fmt, optBytes host, optBytes abs, optBytes absRel, bytesOfField path,
      bytesOfField rel, bytesOfField suffix, natOfField w with
    | some links, some fmt, some host, some abs, some absRel, some path, some rel, some suffix, some w =>
      let c := mkCfg fmt host .none (if path == rel then [(path, if Generated.diffStatLinksRelPath then absRel else abs)]
                                      else [(path, abs), (rel, absRel)])
      "ok " ++ hexOfBytes (diffStatLine c (links == 1) path rel suffix w)
    | _, _, _, _, _, _, _, _, _ => "ERR"
  -- links.file_change <links> <fmt> <host|-> <kind> <label> <arrow> <minus> <abs minus|-> <plus> <abs plus|->
  | ["links.file_change", links, fmt, host, kind, label, arrow, minus, am, plus, ap] =>
    match natOfField links, bytesOfField fmt, optBytes host, bytesOfField label, bytesOfField arrow,
      bytesOfField minus, optBytes am, bytesOfField plus, optBytes ap with
    | some links, some fmt, some host, some label, some arrow, some minus, some am, some plus, some ap =>
      let k := match kind with
        | "same" => some FileChange.same | "removed" => some FileChange.removed
        | "added" => some FileChange.added | "renamed" => some FileChange.renamed | _ => none
      match k with
      | some k =>
        let c := mkCfg fmt host .none [(minus, am), (plus, ap)]
        "ok " ++ hexOfBytes (fileChangeDescription c (links == 1) k label arrow minus plus id)
      | none => "ERR"
    | _, _, _, _, _, _, _, _, _ => "ERR"
  -- links.absolute_path <cwd delta|-> <cwd user|-> <relative to cwd 0/1> : which base is joined
  | ["links.absolute_path", d, u, r] =>
    match optBytes d, optBytes u, natOfField r with
    | some d, some u, some r =>
      let c : PathCfg := { cwdOfDelta := d, cwdOfUserShell := u, relativeToCwd := r == 1,
                           join := fun base _ => base }
      match absolutePath c [] with
      | some base => "ok " ++ hexOfBytes base
      | none => "ok none"
    | _, _, _ => "ERR"
  -- links.scan <s>: the specification-side scanner (stripped text, final link state)
  | ["links.scan", s] =>
    match bytesOfField s with
    | some s =>
      "ok " ++ hexOfBytes (stripOsc8 s) ++ " " ++
        (match finalLink s with | some u => hexOfBytes u | none => "-")
    | none => "ERR"
  | _ => "ERR"

def step (line : String) : String :=
  match fields line with
  | ["ansi.elements", s] =>
    match bytesOfField s with
    | some s => okList ((elements s).map encElement)
    | none => "ERR"
  | ["ansi.strip", s] =>
    match bytesOfField s with
    | some s => exc ((strip s).map fun r => "ok " ++ hexOfBytes r)
    | none => "ERR"
  | "ansi.measure" :: s :: tabs =>
    match bytesOfField s, tables tabs with
    | some s, some U => exc ((measure U s).map fun n => s!"ok {n}")
    | _, _ => "ERR"
  | "ansi.truncate" :: s :: w :: tail :: fill :: tabs =>
    match bytesOfField s, natOfField w, bytesOfField tail, natOfField fill, tables tabs with
    | some s, some w, some tail, some fill, some U =>
      exc ((truncate U s w tail (if fill = 1 then some [0x20] else none)).map
        fun r => "ok " ++ hexOfBytes r)
    | _, _, _, _, _ => "ERR"
  -- ingest.line <max_line_length> <truncation symbol> <raw> <tables>: `ingest_line` -> raw_line, line
  | "ingest.line" :: maxLen :: sym :: raw :: tabs =>
    match natOfField maxLen, bytesOfField sym, bytesOfField raw, tables tabs with
    | some maxLen, some sym, some raw, some U =>
      exc ((Ingest.ingest U maxLen sym raw).map fun (r, l) => "ok " ++ hexOfBytes r ++ " " ++ hexOfBytes l)
    | _, _, _, _ => "ERR"
  -- ingest.lossy <max_line_length> <truncation symbol> <lossy string> <tables>: `ingest_line` on invalid UTF-8
  | "ingest.lossy" :: maxLen :: sym :: raw :: tabs =>
    match natOfField maxLen, bytesOfField sym, bytesOfField raw, tables tabs with
    | some maxLen, some sym, some raw, some U =>
      exc ((Ingest.ingestInvalid U maxLen sym raw).map fun (r, l) => "ok " ++ hexOfBytes r ++ " " ++ hexOfBytes l)
    | _, _, _, _ => "ERR"
  | ["ansi.parse_style_sections", s] =>
    match bytesOfField s with
    | some s =>
      exc ((parseStyleSections s).map fun secs =>
        okList (secs.map fun (st, t) => encStyle st ++ ":" ++ hexOfBytes t))
    | none => "ERR"
  | ["ansi.first_style", s] =>
    match bytesOfField s with
    | some s => (match parseFirstStyle s with | some st => "ok " ++ encStyle st | none => "ok none")
    | none => "ERR"
  | ["ansi.starts_with_sgr", s] =>
    match bytesOfField s with
    | some s => "ok " ++ bit (startsWithSgr s)
    | none => "ERR"
  | ["ansi.sgr_to_style", p] =>
    match bytesOfField p with
    | some p => (match sgrKindOf p with | some ps => "ok " ++ encStyle (sgrToStyle ps) | none => "ok none")
    | none => "ERR"
  | "ansi.has_style_other_than" :: s :: styles =>
    match bytesOfField s, decStyles styles with
    | some s, some sts => "ok " ++ bit (lineHasStyleOtherThan s sts)
    | _, _ => "ERR"
  | ["ansi.style_equality", a, b] =>
    match decStyle a, decStyle b with
    | some a, some b => "ok " ++ bit (styleEq a b)
    | _, _ => "ERR"
  | ["ansi.paint", st, t] =>
    match decStyle st, bytesOfField t with
    | some st, some t => "ok " ++ hexOfBytes (paint st t)
    | _, _ => "ERR"
  | ["ansi.slice", s, start] =>
    match bytesOfField s, natOfField start with
    | some s, some start => exc ((preservingSlice s start).map fun r => "ok " ++ hexOfBytes r)
    | _, _ => "ERR"
  | ["ansi.index", s, i] =>
    match bytesOfField s, natOfField i with
    | some s, some i => (match preservingIndex s i with | some k => s!"ok {k}" | none => "ok none")
    | _, _ => "ERR"
  -- terminal meaning of `ESC [ p m` from the default state (compared with the oracle's decoder)
  | ["ansi.rendition", p] =>
    match bytesOfField p with
    | some p => (match sgrKindOf p with | some ps => "ok " ++ encRendition (applySgr {} ps) | none => "ok none")
    | none => "ERR"
  -- rendition of the re-emitted parsed style (the two sides of `moved_colours_round_trip`)
  | ["ansi.round_trip", p] =>
    match bytesOfField p with
    | some p =>
      (match sgrKindOf p with
       | some ps => "ok " ++ encRendition (renditionOfStyle (sgrToStyle ps)) ++ " " ++ encRendition (applySgr {} ps)
       | none => "ok none")
    | none => "ERR"
  | _ => stepLinks line

end DrvAnsi

def main : IO Unit := serve DrvAnsi.step
