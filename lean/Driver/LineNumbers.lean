import DeltaModel.Proto
import DeltaModel.LineNumbers
import DeltaModel.WholeDiff
import DeltaModel.WholeDiffSbs
/-!
Model driver for C05 (`drv_linenum`). Same line protocol as /repo/src/verif_hooks/linenum.rs.
State: the configuration set by the last `cfg` request (only the options that matter for the
number gutter are interpreted: `--side-by-side`/`-s`, `--line-numbers`/`-n`,
`--line-numbers-left-format=…`, `--line-numbers-right-format=…`; valued options must be sent
in the `--opt=value` form).
-/
open Proto LineNumbers

structure Cfg where
  sbs : Bool := false
  lineNumbers : Bool := false
  fmtL : Option String := none
  fmtR : Option String := none

def Cfg.left (c : Cfg) : String :=
  match c.fmtL with
  | some f => f
  | none => if c.sbs then Generated.LineNum.sbsLeftFormat else Generated.LineNum.defaultLeftFormat

def Cfg.right (c : Cfg) : String :=
  match c.fmtR with
  | some f => f
  | none => if c.sbs then Generated.LineNum.sbsRightFormat else Generated.LineNum.defaultRightFormat

def stripPrefix? (s pre : String) : Option String :=
  if s.startsWith pre then some (String.ofList (s.toList.drop pre.length)) else none

def cfgOfArgs (args : List String) : Cfg :=
  args.foldl (fun c a =>
    if a = "--side-by-side" ∨ a = "-s" then { c with sbs := true, lineNumbers := true }
    else if a = "--line-numbers" ∨ a = "-n" then { c with lineNumbers := true }
    else match stripPrefix? a "--line-numbers-left-format=" with
      | some v => { c with fmtL := some v }
      | none => match stripPrefix? a "--line-numbers-right-format=" with
        | some v => { c with fmtR := some v }
        | none => c) {}

abbrev P := StateT (List String) Option

def pNext : P String := do
  match (← get) with
  | [] => failure
  | f :: rest => set rest; pure f

def pNat : P Nat := do
  let f ← pNext
  match natOfField f with
  | some n => pure n
  | none => failure

def pOptNat : P (Option Nat) := do
  let f ← pNext
  if f = "-" then pure none else
  match natOfField f with
  | some n => pure (some n)
  | none => failure

def pStr : P String := do
  let f ← pNext
  match stringOfField f with
  | some s => pure s
  | none => failure

def pMany {α} (p : P α) : Nat → P (List α)
  | 0 => pure []
  | n + 1 => do
    let x ← p
    let xs ← pMany p n
    pure (x :: xs)

def pCounted {α} (p : P α) : P (List α) := do
  let n ← pNat
  pMany p n

def pPair : P (Nat × Nat) := do
  let a ← pNat
  let b ← pNat
  pure (a, b)

def pAlign : P (Option Nat × Option Nat) := do
  let a ← pOptNat
  let b ← pOptNat
  pure (a, b)

def pDone : P Unit := do
  match (← get) with
  | [] => pure ()
  | _ => failure

def runP {α} (p : P α) (fs : List String) : Option α :=
  match (do let x ← p; pDone; pure x : P α).run fs with
  | some (x, _) => some x
  | none => none

def hexL (l : List Char) : String := hexOfString (String.ofList l)

def showOpt : Option Nat → String
  | some n => toString n
  | none => "-"

def panicLine (e : String) : String := "PANIC " ++ hexOfString e

def fmtData (cfg : Cfg) : Except String (List PH × List PH) :=
  -- stdout is never a terminal in the harness: line_fill_method is Spaces, no odd-width pad char
  match parseFormat cfg.left.toList false with
  | .error e => .error e
  | .ok fl =>
    match parseFormat cfg.right.toList false with
    | .error e => .error e
    | .ok fr => .ok (fl, fr)

def alignCode : Option Align → String
  | none => "-"
  | some a => toString a.code

def showPH (p : PH) : String :=
  let ph := match p.ph with | none => 0 | some k => k
  s!" {hexL p.pre} {p.preLen} {ph} {alignCode p.align} {showOpt p.width} {showOpt p.precision} {hexL p.fmtType} {hexL p.suf} {p.sufLen}"

def stOfField (n : Nat) : St := St.ofCode n

def panelOfField : Nat → Option Panel
  | 1 => some .left
  | 2 => some .right
  | _ => none

/-- `linenum.machine`: initialize_hunk, then paint_line per step; gutters rendered. -/
def opMachine (cfg : Cfg) (pairs : List (Nat × Nat)) (steps : List (Nat × Nat)) : String :=
  match fmtData cfg with
  | .error e => panicLine e
  | .ok (fl, fr) =>
    match initializeHunk pairs with
    | .error e => panicLine e
    | .ok (c0, minW) =>
      let rec go (c : Counters) (acc : List String) : List (Nat × Nat) → Except String (Counters × List String)
        | [] => .ok (c, acc.reverse)
        | (st, pn) :: rest =>
          match paintLine cfg.sbs c (stOfField st) (panelOfField pn) with
          | .error e => .error e
          | .ok (c1, cell) => go c1 (hexL (renderCell fl fr minW cell) :: acc) rest
      match go c0 [] steps with
      | .error e => panicLine e
      | .ok (c, gs) =>
        s!"ok {minW} {gs.length}" ++ String.join (gs.map (" " ++ ·)) ++ s!" {c.left} {c.right}"

def showSbsRows (fl fr : List PH) (minW : Nat) (rows : List SbsRow) : String :=
  s!"{rows.length}" ++ String.join (rows.map fun r =>
    " " ++ hexL (renderCell fl fr minW r.l) ++ " " ++ hexL (renderCell fl fr minW r.r))

def showURows (fl fr : List PH) (minW : Nat) (rows : List (Option Cell)) : String :=
  s!"{rows.length}" ++ String.join (rows.map fun r => " " ++ hexL (renderCell fl fr minW r))

def pBlock : P Block := do
  let k ← pNat
  if k = 0 then
    let rows ← pNat
    pure (.zero rows)
  else
    let m ← pNat
    let p ← pNat
    let al ← pCounted pAlign
    let wl ← pCounted pNat
    let wr ← pCounted pNat
    let rl ← pCounted pNat
    let rr ← pCounted pNat
    pure (.sub m p al wl wr (rl.map (· != 0)) (rr.map (· != 0)))

def showCellNums : Option Cell → String
  | none => " none"
  | some x => s!" {showOpt x.left} {showOpt x.right}"

/-- `linenum.whole` item: `N x<minus file> x<plus file>` | `H x<@@ line>` | `L <0 minus|1 plus|2 unchanged|3 other>` -/
def pItem : P Whole.Item := do
  let t ← pNext
  if t = "N" then
    let m ← pStr
    let p ← pStr
    pure (.names m p)
  else if t = "H" then
    let l ← pStr
    pure (.header l.toList)
  else if t = "L" then
    let k ← pNat
    pure (.line (if k = 0 then some Kind.minus else if k = 1 then some Kind.plus else if k = 2 then some Kind.ctx else none))
  else failure

def showORow : Whole.ORow → String
  | .header path n => s!" H {hexOfString path} {n}"
  | .line none w pf => s!" R {w} {hexOfString pf}"
  | .line (some x) w pf => s!" C {showOpt x.left} {showOpt x.right} {w} {hexOfString pf}"

/-- `linenum.whole_sbs` item: `N x<minus file> x<plus file>` | `H x<@@ line>` |
    `L <0 minus|1 plus|2 unchanged|3 other> <display rows> <raw 0|1> <tag>`; tag: 0 = not paired, otherwise the
    removed and the added line of a pair carry the same tag -/
def pItemS : P WholeSbs.SItem := do
  let t ← pNext
  if t = "N" then
    let m ← pStr
    let p ← pStr
    pure (.names m p)
  else if t = "H" then
    let l ← pStr
    pure (.header l.toList)
  else if t = "L" then
    let k ← pNat
    let rows ← pNat
    let raw ← pNat
    let tag ← pNat
    pure (.line (if k = 0 then some Kind.minus else if k = 1 then some Kind.plus else if k = 2 then some Kind.ctx else none)
      ⟨rows, raw != 0, tag⟩)
  else failure

def findTag (t : Nat) : List WholeSbs.SLine → Nat → Option Nat
  | [], _ => none
  | p :: ps, k => if p.tag = t then some k else findTag t ps (k + 1)

/-- the alignment `infer_edits` builds from a given set of pairs: per removed line, its partner among the added lines
    not yet used (the added lines skipped on the way are unpaired and come first), or no partner; the remaining added
    lines at the end -/
def alignFrom (ps : List WholeSbs.SLine) : List WholeSbs.SLine → Nat → Nat → Alignment
  | [], _, j => rightOnly j (ps.length - j)
  | m :: ms, i, j =>
    match (if m.tag = 0 then none else findTag m.tag (ps.drop j) 0) with
    | some k => rightOnly j k ++ (some i, some (j + k)) :: alignFrom ps ms (i + 1) (j + k + 1)
    | none => (some i, none) :: alignFrom ps ms (i + 1) j

def tagAlign : WholeSbs.AlignOf := fun ms ps => alignFrom ps ms 0 0

def showSORow : WholeSbs.SORow → String
  | .header path n => s!" H {hexOfString path} {n}"
  | .line ⟨some x, some y⟩ w pf => s!" S {showOpt x.left} {showOpt y.right} {w} {hexOfString pf}"
  | .line _ w pf => s!" P {w} {hexOfString pf}"

def step (cfg : Cfg) (line : String) : String :=
  match fields line with
  | "linenum.pad" :: rest =>
    match runP (do let n ← pNat; let w ← pNat; let a ← pNat; let _ ← pOptNat; pure (n, w, a)) rest with
    | some (n, w, a) => "ok " ++ hexL (pad n w (Align.ofCode a))
    | none => "ERR"
  | "linenum.log10" :: rest =>
    match runP pNat rest with
    | some n => s!"ok {log10Plus1 n}"
    | none => "ERR"
  | "linenum.parse_format" :: rest =>
    match runP (do let f ← pStr; let b ← pNat; pure (f, b)) rest with
    | some (f, b) =>
      match parseFormat f.toList (b != 0) with
      | .error e => panicLine e
      | .ok items => s!"ok {items.length}" ++ String.join (items.map showPH)
    | none => "ERR"
  | "linenum.hunk_header" :: rest =>
    match runP pStr rest with
    | some l =>
      match parseHunkHeader l.toList with
      | .error e => panicLine e
      | .ok none => "ok none"
      | .ok (some (frag, pairs)) =>
        s!"ok {hexL frag} {pairs.length}" ++ String.join (pairs.map fun (a, b) => s!" {a} {b}")
    | none => "ERR"
  | "linenum.config" :: [] =>
    s!"ok {if cfg.sbs then 1 else 0} {if cfg.lineNumbers then 1 else 0} {hexOfString cfg.left} {hexOfString cfg.right}"
  | "linenum.numbers" :: rest =>
    match runP (do let s ← pNat; let i ← pNat; let l ← pNat; let r ← pNat; pure (s, i, l, r)) rest with
    | some (s, i, l, r) =>
      match linenumbersAndStyles ⟨l, r⟩ (stOfField s) (i != 0) with
      | .error e => panicLine e
      | .ok none => "ok none"
      | .ok (some (c, sh)) => s!"ok {showOpt sh.minus} {showOpt sh.plus} {c.left} {c.right}"
    | none => "ERR"
  | "linenum.machine" :: rest =>
    match runP (do let ps ← pCounted pPair; let st ← pCounted pPair; pure (ps, st)) rest with
    | some (ps, st) => opMachine cfg ps st
    | none => "ERR"
  | "linenum.sbs_rows" :: rest =>
    match runP (do
        let ps ← pCounted pPair; let m ← pNat; let p ← pNat
        let al ← pCounted pAlign; let wl ← pCounted pNat; let wr ← pCounted pNat
        let rl ← pCounted pNat; let rr ← pCounted pNat
        pure (ps, m, p, al, wl, wr, rl.map (· != 0), rr.map (· != 0))) rest with
    | some (ps, m, p, al, wl, wr, rl, rr) =>
      match fmtData cfg with
      | .error e => panicLine e
      | .ok (fl, fr) =>
        match initializeHunk ps with
        | .error e => panicLine e
        | .ok (c0, minW) =>
          match sbsBlock c0 m p al wl wr rl rr with
          | .error e => panicLine e
          | .ok (c, rows) => "ok " ++ showSbsRows fl fr minW rows ++ s!" {c.left} {c.right}"
    | none => "ERR"
  | "linenum.blocks_rows" :: rest =>
    match runP (do let ps ← pCounted pPair; let bs ← pCounted pBlock; pure (ps, bs)) rest with
    | some (ps, bs) =>
      match fmtData cfg with
      | .error e => panicLine e
      | .ok (fl, fr) =>
        match initializeHunk ps with
        | .error e => panicLine e
        | .ok (c0, minW) =>
          if cfg.sbs then
            match runBlocksSbs c0 bs with
            | .error e => panicLine e
            | .ok (c, rows) => "ok " ++ showSbsRows fl fr minW rows ++ s!" {c.left} {c.right}"
          else
            match runBlocksU c0 bs with
            | .error e => panicLine e
            | .ok (c, rows) => "ok " ++ showURows fl fr minW rows ++ s!" {c.left} {c.right}"
    | none => "ERR"
  | "linenum.unified_hunk" :: rest =>
    match runP (do let b ← pNat; let a ← pNat; let c ← pNat; let ks ← pCounted pNat; pure (b, a, c, ks)) rest with
    | some (b, a, c, ks) =>
      let kinds := ks.map fun k => if k = 0 then Kind.minus else if k = 1 then Kind.plus else Kind.ctx
      match runUnified b ⟨a, c⟩ kinds with
      | .error e => panicLine e
      | .ok (cn, rows) =>
        s!"ok {rows.length}" ++ String.join (rows.map showCellNums) ++ s!" {cn.left} {cn.right}"
    | none => "ERR"
  | "linenum.header" :: rest =>
    match runP (do let m ← pStr; let p ← pStr; let l ← pStr; pure (m, p, l)) rest with
    | some (m, p, l) =>
      match parseHunkHeader l.toList with
      | .error e => panicLine e
      | .ok none => "ok none"
      | .ok (some (_, pairs)) =>
        match headerNumber pairs, initializeHunk pairs with
        | .ok n, .ok (c, w) => s!"ok {n} {hexOfString (headerPath m p)} {c.left} {c.right} {w}"
        | .error e, _ => panicLine e
        | _, .error e => panicLine e
    | none => "ERR"
  | "linenum.whole" :: rest =>
    -- a whole multi-file, multi-hunk input through `Whole.runWhole` (unified view)
    match runP (do let b ← pNat; let items ← pCounted pItem; pure (b, items)) rest with
    | some (b, items) =>
      match Whole.runWhole b items with
      | .error e => panicLine e
      | .ok rows => s!"ok {rows.length}" ++ String.join (rows.map showORow)
    | none => "ERR"
  | "linenum.whole_sbs" :: rest =>
    -- a whole multi-file, multi-hunk input through `WholeSbs.runWholeSbs` (side-by-side view)
    match runP (do let b ← pNat; let items ← pCounted pItemS; pure (b, items)) rest with
    | some (b, items) =>
      match WholeSbs.runWholeSbs b tagAlign items with
      | .error e => panicLine e
      | .ok rows => s!"ok {rows.length}" ++ String.join (rows.map showSORow)
    | none => "ERR"
  | "linenum.defaults" :: [] =>
    s!"ok {hexOfString Generated.LineNum.defaultLeftFormat} {hexOfString Generated.LineNum.defaultRightFormat} {hexOfString Generated.LineNum.sbsLeftFormat} {hexOfString Generated.LineNum.sbsRightFormat} {Generated.LineNum.lineBufferSizeDefault}"
  | _ => "ERR"

partial def loop (h out : IO.FS.Stream) (cfg : Cfg) : IO Unit := do
  let line ← h.getLine
  if line.isEmpty then return ()
  let t := line.trimAscii.toString
  if t.isEmpty then loop h out cfg
  else
    match fields t with
    | "cfg" :: args =>
      match args.mapM stringOfField with
      | some as =>
        out.putStrLn "ok"
        out.flush
        loop h out (cfgOfArgs as)
      | none =>
        out.putStrLn "ERR"
        out.flush
        loop h out cfg
    | _ =>
      out.putStrLn (step cfg t)
      out.flush
      loop h out cfg

def main : IO Unit := do
  loop (← IO.getStdin) (← IO.getStdout) {}
