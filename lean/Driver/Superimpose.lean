import DeltaModel.Proto
import DeltaModel.Superimpose
/-!
Model driver for C15 (`drv_superimpose`). Same requests and encodings as
`/repo/src/verif_hooks/superimpose.rs` (see the header comment there).
-/
open Proto Superimpose

namespace SuperimposeDriver

def hexNat (cs : List Char) : Option Nat :=
  cs.foldlM (fun acc c => (hexVal c).map fun v => 16 * acc + v) 0

def hex2 (n : Nat) : String := String.ofList [hexDigit (n / 16 % 16), hexDigit (n % 16)]

def encColor : Option Color → String
  | none => "-"
  | some (.named n) => s!"n{n}"
  | some (.fixed n) => s!"f{n}"
  | some (.rgb r g b) => "r" ++ hex2 r ++ hex2 g ++ hex2 b

def decColor (s : String) : Option (Option Color) :=
  match s.toList with
  | ['-'] => some none
  | 'n' :: v => do
    let n ← (String.ofList v).toNat?
    if n < 8 then pure (some (.named n)) else none
  | 'f' :: v => do
    let n ← (String.ofList v).toNat?
    if n < 256 then pure (some (.fixed n)) else none
  | 'r' :: v =>
    if v.length = 6 then do
      let n ← hexNat v
      pure (some (.rgb (n / 65536) (n / 256 % 256) (n % 256)))
    else none
  | _ => none

def bit (n k : Nat) : Bool := (n / k) % 2 == 1
def b2n (b : Bool) (k : Nat) : Nat := if b then k else 0

def encAnsi (a : AnsiStyle) : String :=
  let attrs := b2n a.bold 1 + b2n a.dimmed 2 + b2n a.italic 4 + b2n a.underline 8 +
    b2n a.blink 16 + b2n a.reverse 32 + b2n a.hidden 64 + b2n a.strike 128
  s!"{encColor a.fg},{encColor a.bg},{attrs}"

def decAnsi (fg bg attrs : String) : Option AnsiStyle := do
  let fg ← decColor fg
  let bg ← decColor bg
  let n ← attrs.toNat?
  pure { fg := fg, bg := bg, bold := bit n 1, dimmed := bit n 2, italic := bit n 4,
         underline := bit n 8, blink := bit n 16, reverse := bit n 32, hidden := bit n 64,
         strike := bit n 128 }

def encStyle (s : Style) : String :=
  let flags := b2n s.isEmph 1 + b2n s.isOmitted 2 + b2n s.isRaw 4 + b2n s.isSyntaxHighlighted 8
  s!"{encAnsi s.ansi},{flags},{s.decoKind},{encAnsi s.decoStyle}"

def decStyle (f : String) : Option Style :=
  match f.splitOn "," with
  | [fg, bg, att, fl, dk, dfg, dbg, dat] => do
    let a ← decAnsi fg bg att
    let fl ← fl.toNat?
    let dk ← dk.toNat?
    let d ← decAnsi dfg dbg dat
    if dk > 7 then none
    else pure { ansi := a, isEmph := bit fl 1, isOmitted := bit fl 2, isRaw := bit fl 4,
                isSyntaxHighlighted := bit fl 8, decoKind := dk, decoStyle := d }
  | _ => none

def decSynColor (s : String) : Option SynColor :=
  if s.length = 8 then do
    let n ← hexNat s.toList
    pure ⟨n / 16777216, n / 65536 % 256, n / 256 % 256, n % 256⟩
  else none

def decSyn (f : String) : Option SynStyle :=
  match f.splitOn "," with
  | [fg, bg, fs] => do
    let fg ← decSynColor fg
    let bg ← decSynColor bg
    let fs ← fs.toNat?
    pure ⟨fg, bg, fs⟩
  | _ => none

/-- `Q<rrggbb>:<n>,...` -/
def decQuant (f : String) : Option (List (Nat × Nat)) :=
  match f.toList with
  | 'Q' :: rest =>
    if rest.isEmpty then some [] else
    ((String.ofList rest).splitOn ",").mapM fun e =>
      match e.splitOn ":" with
      | [k, v] => do
        let k ← hexNat k.toList
        let v ← v.toNat?
        pure (k, v)
      | _ => none
  | ['-'] => some []
  | _ => none

def quantOf (tbl : List (Nat × Nat)) (r g b : Nat) : Nat :=
  (lookupNat tbl (r * 65536 + g * 256 + b)).getD 999

/-- `<style> <xtext>` pairs. -/
def takeSections {σ : Type} (dec : String → Option σ) :
    Nat → List String → Option (List (σ × List Char) × List String)
  | 0, rest => some ([], rest)
  | n + 1, st :: tx :: rest => do
    let s ← dec st
    let t ← stringOfField tx
    let (more, rest) ← takeSections dec n rest
    pure ((s, t.toList) :: more, rest)
  | _, _ => none

def encSections (out : List (Style × List Char)) : String :=
  out.foldl (fun acc st => acc ++ " " ++ encStyle st.1 ++ " " ++ hexOfString (String.ofList st.2))
    s!"ok {out.length}"

def takeTriples : Nat → List String → Option (List (Pair × Char))
  | 0, [] => some []
  | n + 1, s :: d :: c :: rest => do
    let s ← decSyn s
    let d ← decStyle d
    let c ← stringOfField c
    match c.toList with
    | [ch] =>
      let more ← takeTriples n rest
      pure (((s, d), ch) :: more)
    | _ => none
  | _, _ => none

/-- `T<hexkey>:<hexval | ->,...` -/
def decTable (f : String) : Option (List (String × Option String)) :=
  match f.toList with
  | 'T' :: rest =>
    if rest.isEmpty then some [] else
    ((String.ofList rest).splitOn ",").mapM fun e =>
      match e.splitOn ":" with
      | [k, v] => do
        let k ← stringOfField ("x" ++ k)
        if v = "-" then pure (k, none)
        else do
          let v ← stringOfField ("x" ++ v)
          pure (k, some v)
      | _ => none
  | _ => none

def lookupTbl (tbl : List (String × Option String)) (k : String) : Option (Option String) :=
  match tbl with
  | [] => none
  | (k', v) :: rest => if k' = k then some v else lookupTbl rest k

/-- What cutting a raw `--- a/<path>` line at the first TAB and at spaces leaves of the path
(for the model's marker-line source; `get_filename_from_marker_line`). -/
def markerName (n : Option (List Char)) : Option (List Char) :=
  n.map fun p => ('a' :: '/' :: p).takeWhile fun c => c != ' ' && c != '\t'

def hunkEvents (h : String) : Option (List Lifetime.Event) :=
  h.toList.foldlM (fun acc c =>
    match c with
    | 'c' => some (acc ++ [Lifetime.Event.contextLine])
    | 'b' => some (acc ++ [Lifetime.Event.changedLine false])
    | 'f' => some (acc ++ [Lifetime.Event.changedLine true])
    | _ => none) [Lifetime.Event.hunkHeader]

/-- `<xminus | -> <xplus | -> <hunks>`; hunks: `_` or `.`-separated strings over c/b/f. -/
def takeFileSections : Nat → List String →
    Option (List (Option (List Char) × Option (List Char) × List Lifetime.Event))
  | 0, [] => some []
  | n + 1, m :: p :: h :: rest => do
    let m ← if m = "-" then some none else (stringOfField m).map fun x => some x.toList
    let p ← if p = "-" then some none else (stringOfField p).map fun x => some x.toList
    let evs ← if h = "_" then some [] else
      List.foldlM (fun (acc : List Lifetime.Event) (x : String) => (hunkEvents x).map fun e => acc ++ e)
        [] (h.splitOn ".")
    let more ← takeFileSections n rest
    pure ((m, p, evs) :: more)
  | _, _ => none

def step (line : String) : String :=
  match fields line with
  | "superimpose.run" :: tc :: null :: q :: rest =>
    match natOfField tc, decSyn null, decQuant q with
    | some tc, some null, some q =>
      match rest with
      | nsyn :: rest =>
        match nsyn.toNat? with
        | some nsyn =>
          match takeSections decSyn nsyn rest with
          | some (syn, ndiff :: rest) =>
            match ndiff.toNat? with
            | some ndiff =>
              match takeSections decStyle ndiff rest with
              | some (diff, []) =>
                let env : Env := { trueColor := tc != 0, null := null, quant := quantOf q }
                match superimposeStyleSections env syn diff with
                | .ok out => encSections out
                | .error e => "PANIC " ++ hexOfString e
              | _ => "ERR diff sections"
            | none => "ERR ndiff"
          | _ => "ERR syn sections"
        | none => "ERR nsyn"
      | _ => "ERR arity"
    | _, _, _ => "ERR header"
  | "superimpose.coalesce" :: tc :: null :: q :: n :: rest =>
    match natOfField tc, decSyn null, decQuant q, n.toNat? with
    | some tc, some null, some q, some n =>
      match takeTriples n rest with
      | some l =>
        let env : Env := { trueColor := tc != 0, null := null, quant := quantOf q }
        encSections (coalesce env l)
      | none => "ERR triples"
    | _, _, _, _ => "ERR header"
  | ["superimpose.toansi", c, tc, q] =>
    match decSynColor c, natOfField tc, decQuant q with
    | some c, some tc, some q =>
      "ok " ++ encColor (toAnsiColor { trueColor := tc != 0, null := configNull, quant := quantOf q } c)
    | _, _, _ => "ERR"
  | ["superimpose.nullstyle"] =>
    let n := configNull
    let col (c : SynColor) := hex2 c.r ++ hex2 c.g ++ hex2 c.b ++ hex2 c.a
    s!"ok {col n.fg},{col n.bg},{n.font}"
  | ["superimpose.pathparts", p] =>
    match stringOfField p with
    | some p =>
      "ok " ++ hexOfString (String.ofList ((fileName p.toList).getD [])) ++ " " ++
        hexOfString (String.ofList ((extension p.toList).getD []))
    | none => "ERR"
  | ["superimpose.syntax", p, _dflt, fb, tbl] =>
    match (if p = "-" then some none else (stringOfField p).map some), stringOfField fb, decTable tbl with
    | some path, some fb, some tbl =>
      -- the lookup function restricted to the table; a key outside the table is an error
      let keys : List String := match path with
        | none => []
        | some p => [String.ofList ((fileName p.toList).getD []), String.ofList ((extension p.toList).getD [])]
      if keys.any (fun k => (lookupTbl tbl k).isNone) then "ERR key-not-in-table"
      else
        let byExt (k : List Char) : Option String := (lookupTbl tbl (String.ofList k)).getD none
        "ok " ++ hexOfString (getSyntax byExt fb (path.map String.toList))
    | _, _, _ => "ERR"
  | "superimpose.lifetime" :: fb :: tbl :: nsec :: rest =>
    match stringOfField fb, decTable tbl, nsec.toNat? with
    | some fb, some tbl, some nsec =>
      match takeFileSections nsec rest with
      | some secs =>
        let names : List (List Char) := secs.flatMap fun sc => sc.1.toList ++ sc.2.1.toList
        let keys : List String := names.flatMap fun p =>
          [String.ofList ((fileName p).getD []), String.ofList ((extension p).getD [])]
        if keys.any (fun k => (lookupTbl tbl k).isNone) then "ERR key-not-in-table"
        else
          let byExt (k : List Char) : Option String := (lookupTbl tbl (String.ofList k)).getD none
          let lang : Option (List Char) → String := getSyntax byExt fb
          let evs : List Lifetime.Event :=
            (secs.flatMap fun sc =>
              [.fileMinus sc.1 (markerName sc.1), .filePlus sc.2.1 (markerName sc.2.1)] ++ sc.2.2) ++ [.flush]
          let r := Lifetime.run lang (Lifetime.initial lang false) evs
          r.2.foldl (fun acc q =>
            acc ++ " " ++ (match q.kind with | .fragment => "F" | .line => "L") ++ ":" ++
              (match q.used with
               | some (l, n) => hexOfString l ++ ":" ++ toString n
               | none => "-:0") ++ ":" ++ hexOfString q.expected.1 ++ ":" ++ toString q.expected.2) "ok"
      | none => "ERR sections"
    | _, _, _ => "ERR header"
  | ["superimpose.sbs_rewrite", sbs, supplied, name, value] =>
    -- supplied: comma separated option names given on the command line (`-` = none)
    match natOfField sbs, stringOfField name, stringOfField value with
    | some sbs, some name, some value =>
      let sup : List String := if supplied = "-" then [] else supplied.splitOn ","
      "ok " ++ hexOfString (String.ofList (sbsRewrite (sbs != 0) (fun n => sup.contains n) name value.toList))
    | _, _, _ => "ERR"
  | _ => "ERR unknown"

end SuperimposeDriver

def main : IO Unit := Proto.serve SuperimposeDriver.step
