import DeltaModel.Proto
import DeltaModel.Caller
import DeltaModel.CallerScan
import DeltaModel.CallGraph
open Proto Caller

/-
Model driver for C20 (`drv_caller`).

  caller.run  <guess> <known|-> <queries> <x hex of comma-separated gate schedule>
      -> ok feasible results=<r,..> checks=<k:r;..> maindone=<0|1> bgdone=<0|1> owner=<-|bg|main> steps=<n>
       | ok infeasible <index> blocked | ok infeasible <index> mismatch <gate the thread stands at|->
  caller.enum <guess> <known|-> <queries>
      -> ok <n> <schedule>|<schedule>|...     (every gate schedule until the main thread is done)
  caller.shape -> ok bg=<stmt,..> pub=<stmt,..> query=<stmt,..> startup=<phase,..>   (statement order the model executes)
  caller.describe <n> <x arg>*n
      -> ok args <called> | ok argerror | ok other | PANIC <x message>     (`describe_calling_process` on that slice)
  caller.scan <k> (<n> <x arg>*n)*k  <0|1> [<n> <x arg>*n]  <m> (<n> <x arg>*n)*m
      -> ok guess <called|None> | PANIC <x message>   (`determine_calling_process` over ancestors, pid-1 process, neighbours)
  caller.scanshape -> ok total=<0|1> cmd=<..> rest=<..> points=<n> pointsok=<0|1>
  caller.graph -> ok nodes=<n> sep=<0|1> startup=<phase,..> pre=<0|1 per statement before the publication: can it query>
                     post=<0|1 per statement after it> prequery=<-|names of query primitives in the pre-publication closure>
                     caches=<-|names of the lazy_statics whose initialiser can query>
  caller.reach <x node name> -> ok <0|1> <number of nodes in the closure>   (can a call of that node end in a query primitive)
  caller.answers <x accesses: c = through the cache, d = direct> <v..,v..|-> -> ok made=<n> <v..,..> | ok made=<n> short
  <called> = OtherGrep | <Variant> long=<x..,x..> short=<x..,..> last=<-|x..> file=<-|x..>
Values: `pending` or `v<n>`.
-/

def cellStr : Cell → String
  | .pending => "pending"
  | .val v => "v" ++ toString v

def parseCfg (g k q : String) : Option Cfg := do
  let g ← natOfField g
  let q ← natOfField q
  let k ← if k = "-" then some none else (natOfField k).map some
  pure { guess := g, known := k, queries := q }

def allGates (q : Nat) : List Gate :=
  [.bCompute, .bLock, .bLoad, .bStore, .bNotify, .bUnlock, .mLock, .mStore, .mFlag, .mNotify, .mUnlock]
    ++ (List.range (q + 2)).flatMap fun k => [Gate.qLock k, Gate.qCheck k]

def gateOfName (q : Nat) (n : String) : Option Gate := (allGates q).find? (·.name = n)

def ownerStr : Option Tid → String
  | none => "-" | some .bg => "bg" | some .main => "main"

def stepCaller (line : String) : String :=
  match fields line with
  | ["caller.run", g, k, q, sched] =>
    match parseCfg g k q, stringOfField sched with
    | some cfg, some sc =>
      let names := (sc.splitOn ",").filter (· ≠ "")
      match names.mapM (gateOfName (cfg.queries + names.length)) with
      | none => "ERR unknown gate"
      | some evs =>
      match runGates cfg (gateInit cfg) evs 0 with
      | .ok r =>
        let s := r.state
        "ok feasible results=" ++ ",".intercalate (s.results.map cellStr)
          ++ " checks=" ++ ";".intercalate (r.checks.map fun (k, c) => toString k ++ ":" ++ cellStr c)
          ++ " maindone=" ++ (if s.mpc = .done then "1" else "0")
          ++ " bgdone=" ++ (if s.bpc = .done then "1" else "0")
          ++ " owner=" ++ ownerStr s.owner
          ++ " steps=" ++ toString r.choices.length
      | .error (i, .mismatch, r) =>
        -- the gate the thread of event i really stands at (`-`: asleep, or finished)
        let standsAt := match evs[i]? with
          | some e => (if e.isBg then bgGate r.state.bpc else mainGate cfg r.state).map Gate.name
          | none => none
        "ok infeasible " ++ toString i ++ " mismatch " ++ standsAt.getD "-"
      | .error (i, .blocked, _) => "ok infeasible " ++ toString i ++ " blocked"
    | _, _ => "ERR"
  | ["caller.enum", g, k, q] =>
    match parseCfg g k q with
    | some cfg =>
      let all := enumGates cfg (8 * cfg.queries + 40) (gateInit cfg) []
      "ok " ++ toString all.length ++ " " ++ "|".intercalate (all.map (",".intercalate ·))
    | none => "ERR"
  | ["caller.shape"] =>
    "ok bg=" ++ ",".intercalate bgShape ++ " pub=" ++ ",".intercalate pubShape
      ++ " query=" ++ ",".intercalate queryShape ++ " startup=" ++ ",".intercalate startupShape
  | _ => "ERR"

/-! ### The scan callback (`DeltaModel/CallerScan.lean`) -/

open CallerScan in
def hexArg (a : Arg) : String := hexOfString (String.ofList a)

open CallerScan in
def optHex : Option Arg → String
  | none => "-"
  | some a => hexArg a

open CallerScan in
def renderCalled : Called → String
  | .otherGrep => "OtherGrep"
  | .git v cl f =>
    v ++ " long=" ++ ",".intercalate (cl.long.map hexArg) ++ " short=" ++ ",".intercalate (cl.short.map hexArg)
      ++ " last=" ++ optHex cl.last ++ " file=" ++ optHex f

open CallerScan in
/-- `<n> <x arg>*n` at the head of a field list. -/
def takeArgv : List String → Option (Argv × List String)
  | [] => none
  | n :: rest =>
    match natOfField n with
    | none => none
    | some k =>
      if rest.length < k then none
      else match (rest.take k).mapM stringOfField with
        | some args => some (args.map String.toList, rest.drop k)
        | none => none

open CallerScan in
def takeArgvs : Nat → List String → Option (List Argv × List String)
  | 0, fs => some ([], fs)
  | k + 1, fs =>
    match takeArgv fs with
    | none => none
    | some (a, rest) =>
      match takeArgvs k rest with
      | none => none
      | some (more, rest') => some (a :: more, rest')

open CallerScan in
def parseTable (fs : List String) : Option Table := do
  let k :: fs := fs | none
  let k ← natOfField k
  let (anc, fs) ← takeArgvs k fs
  let hs :: fs := fs | none
  let (sib, fs) ← if hs = "1" then (takeArgv fs).map (fun (a, r) => (some a, r)) else some (none, fs)
  let m :: fs := fs | none
  let m ← natOfField m
  let (ns, fs) ← takeArgvs m fs
  if fs.isEmpty then some ⟨anc, sib, ns⟩ else none

open CallerScan in
def stepScanOps (line : String) : String :=
  match fields line with
  | "caller.describe" :: fs =>
    match takeArgv fs with
    | some (argv, []) =>
      match describe argv with
      | .ok (.args c) => "ok args " ++ renderCalled c
      | .ok .argError => "ok argerror"
      | .ok .otherProcess => "ok other"
      | .error e => "PANIC " ++ hexOfString e
    | _ => "ERR"
  | "caller.scan" :: fs =>
    match parseTable fs with
    | some t =>
      match scan theShape t with
      | .ok (some c) => "ok guess " ++ renderCalled c
      | .ok none => "ok guess None"
      | .error e => "PANIC " ++ hexOfString e
    | none => "ERR"
  | ["caller.scanshape"] =>
    "ok total=" ++ (if theShape.total then "1" else "0")
      ++ " cmd=" ++ Generated.CallerDescribe.commandAccess.1 ++ ":" ++ toString Generated.CallerDescribe.commandAccess.2
      ++ " rest=" ++ Generated.CallerDescribe.restAccess.1 ++ ":" ++ toString Generated.CallerDescribe.restAccess.2
      ++ " points=" ++ toString Generated.CallerDescribe.panicPoints.length
      ++ " pointsok=" ++ (if Generated.CallerDescribe.panicPoints.all (fun p => totalKinds.contains p.2.2) then "1" else "0")
  | _ => stepCaller line

/-! ### The call graph of the start-up phase (`DeltaModel/CallGraph.lean`) -/

open CallGraph in
def bits (l : List (String × List Nat)) : String :=
  String.ofList (l.map fun st => if canReach G st.2 prims then '1' else '0')

open CallGraph in
def namesOr (l : List Nat) : String :=
  if l.isEmpty then "-" else ",".intercalate (l.map fun i => (Generated.CallerQueries.nodes[i]?).getD "?")

def popCount : Nat → Nat → Nat
  | 0, _ => 0
  | n + 1, S => popCount n S + (if S.testBit n then 1 else 0)

open CallGraph in
def stepGraphOps (line : String) : String :=
  match fields line with
  | ["caller.graph"] =>
    "ok nodes=" ++ toString G.length
      ++ " sep=" ++ (if separates G preRoots prims preClosure then "1" else "0")
      ++ " startup=" ++ ",".intercalate graphStartup
      ++ " pre=" ++ bits Generated.CallerQueries.prePublication
      ++ " post=" ++ bits Generated.CallerQueries.postPublication
      ++ " prequery=" ++ namesOr (prims.filter fun p => preClosure.testBit p)
      ++ " caches=" ++ namesOr (Generated.CallerQueries.lazyStatics.filter fun c => canReach G [c] prims)
  | ["caller.reach", n] =>
    match stringOfField n with
    | some name =>
      let S := closure G [idOf name]
      "ok " ++ (if prims.any (fun t => S.testBit t) then "1" else "0") ++ " " ++ toString (popCount G.length S)
    | none => "ERR"
  | ["caller.answers", a, rs] =>
    match stringOfField a with
    | some acc =>
      let l := acc.toList.map fun c => if c = 'c' then Access.cached else Access.direct
      let res := if rs = "-" then [] else (rs.splitOn ",").map fun w =>
        if w = "pending" then Cell.pending else Cell.val ((w.drop 1).toNat?.getD 0)
      "ok made=" ++ toString (queriesMade l false) ++ " " ++
        (match answers l res none with
         | some out => ",".intercalate (out.map cellStr)
         | none => "short")
    | none => "ERR"
  | _ => stepScanOps line

def main : IO Unit := serve stepGraphOps
