import DeltaModel.Proto
import DeltaModel.Caller
open Proto Caller

/-
Model driver for C20 (`drv_caller`).

  caller.run  <guess> <known|-> <queries> <x hex of comma-separated gate schedule>
      -> ok feasible results=<r,..> checks=<k:r;..> maindone=<0|1> bgdone=<0|1> owner=<-|bg|main> steps=<n>
       | ok infeasible <index> blocked | ok infeasible <index> mismatch <gate the thread stands at|->
  caller.enum <guess> <known|-> <queries>
      -> ok <n> <schedule>|<schedule>|...     (every gate schedule until the main thread is done)
  caller.shape -> ok bg=<stmt,..> pub=<stmt,..> query=<stmt,..> startup=<phase,..>   (statement order the model executes)
Values: `pending` or `v<n>`.
-/

def cellStr : Cell → String
  | .pending => "pending"
  | .val v => "v" ++ toString v

def parseCfg (g k q : String) : Option Cfg := do
  let g ← natOfField g
  let q ← natOfField q
  let k ← if k = "-" then some none else (natOfField k).map some
  pure { guess := g, known := k, queries := q }

def allGates (q : Nat) : List Gate :=
  [.bCompute, .bLock, .bLoad, .bStore, .bNotify, .bUnlock, .mLock, .mStore, .mFlag, .mNotify, .mUnlock]
    ++ (List.range (q + 2)).flatMap fun k => [Gate.qLock k, Gate.qCheck k]

def gateOfName (q : Nat) (n : String) : Option Gate := (allGates q).find? (·.name = n)

def ownerStr : Option Tid → String
  | none => "-" | some .bg => "bg" | some .main => "main"

def stepCaller (line : String) : String :=
  match fields line with
  | ["caller.run", g, k, q, sched] =>
    match parseCfg g k q, stringOfField sched with
    | some cfg, some sc =>
      let names := (sc.splitOn ",").filter (· ≠ "")
      match names.mapM (gateOfName (cfg.queries + names.length)) with
      | none => "ERR unknown gate"
      | some evs =>
      match runGates cfg (gateInit cfg) evs 0 with
      | .ok r =>
        let s := r.state
        "ok feasible results=" ++ ",".intercalate (s.results.map cellStr)
          ++ " checks=" ++ ";".intercalate (r.checks.map fun (k, c) => toString k ++ ":" ++ cellStr c)
          ++ " maindone=" ++ (if s.mpc = .done then "1" else "0")
          ++ " bgdone=" ++ (if s.bpc = .done then "1" else "0")
          ++ " owner=" ++ ownerStr s.owner
          ++ " steps=" ++ toString r.choices.length
      | .error (i, .mismatch, r) =>
        -- the gate the thread of event i really stands at (`-`: asleep, or finished)
        let standsAt := match evs[i]? with
          | some e => (if e.isBg then bgGate r.state.bpc else mainGate cfg r.state).map Gate.name
          | none => none
        "ok infeasible " ++ toString i ++ " mismatch " ++ standsAt.getD "-"
      | .error (i, .blocked, _) => "ok infeasible " ++ toString i ++ " blocked"
    | _, _ => "ERR"
  | ["caller.enum", g, k, q] =>
    match parseCfg g k q with
    | some cfg =>
      let all := enumGates cfg (8 * cfg.queries + 40) (gateInit cfg) []
      "ok " ++ toString all.length ++ " " ++ "|".intercalate (all.map (",".intercalate ·))
    | none => "ERR"
  | ["caller.shape"] =>
    "ok bg=" ++ ",".intercalate bgShape ++ " pub=" ++ ",".intercalate pubShape
      ++ " query=" ++ ",".intercalate queryShape ++ " startup=" ++ ",".intercalate startupShape
  | _ => "ERR"

def main : IO Unit := serve stepCaller
