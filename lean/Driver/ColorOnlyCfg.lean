import DeltaModel.Proto
import DeltaModel.ColorOnlyCfg
/-!
Model driver for the options → `Config` step of C02 (`DeltaModel/ColorOnlyCfg.lean`). Not registered as a `lean_exe`
(lakefile.toml is not ours to edit): run with `lake env lean --run Driver/ColorOnlyCfg.lean`.

`cocfg.resolve <pi> <cli> <cliFeatures> <envFeatures> <envNavigate> <noGitconfig> <defaultCfg> <configFile> <params> <wd>`
— the first nine fields as for `opts.resolve` (Driver/Options.lean), `wd` = 0 | 1 (`is_word_diff()`).

Response: `ok requested=<0|1> <config bool field>=<0|1> … tab=<n> strip=<0|1> <option field>=x<hex> …`: whether the
resolved `color-only` is on, every generated boolean `Config` field, the tab width, whether the decoration strip of
`Config::from` applies, and the style / decoration strings the three header styles are parsed from (after the tail of
`set_options`).
-/
open Proto Options ColorOnlyCfg

def splitTab (s : String) : List String := s.splitOn "\t"

def linesOf (s : String) : List String := (s.splitOn "\n").filter (· ≠ "")

def parsePairs (s : String) : List (String × String) :=
  (linesOf s).filterMap fun l =>
    match splitTab l with
    | [k, v] => some (k, v)
    | [k] => some (k, "")
    | _ => none

def insertSection (f k v : String) :
    List (String × List (String × String)) → List (String × List (String × String))
  | [] => [(f, [(k, v)])]
  | (g, es) :: t => if g = f then (g, es ++ [(k, v)]) :: t else (g, es) :: insertSection f k v t

def parseGitFile (s : String) : GitFile :=
  (linesOf s).foldl (fun gf l =>
    match splitTab l with
    | ["m", k, v] => { gf with main := gf.main ++ [(k, v)] }
    | ["s", f, k, v] => { gf with sections := insertSection f k v gf.sections }
    | ["o", k, v] => { gf with other := gf.other ++ [(k, v)] }
    | _ => gf) GitFile.empty

def optField (f : String) : Option (Option String) :=
  if f = "-" then some none else (stringOfField f).map some

def bit (b : Bool) : String := if b then "1" else "0"

def stepCo (line : String) : String :=
  match fields line with
  | ["cocfg.resolve", pi, cli, cf, ef, en, ng, dc, cfg, params, wd] =>
    match stringOfField pi, stringOfField cli, optField cf, optField ef, natOfField en,
          natOfField ng, optField dc, optField cfg, stringOfField params, natOfField wd with
    | some pi, some cli, some cf, some ef, some en, some ng, some dc, some cfg, some params, some wd =>
      let inp : Inputs :=
        { cli := parsePairs cli, cliFeatures := cf, envFeatures := ef, envNavigate := en ≠ 0,
          noGitconfig := ng ≠ 0, defaultFile := dc.map parseGitFile,
          configFile := cfg.map parseGitFile, params := parsePairs params }
      let π := (pi.splitOn " ").filter (· ≠ "")
      let wd := wd ≠ 0
      let o0 := optAfterMacro π inp
      let o := setOptionsTail o0
      let bools := Generated.ColorOnlyCfg.cfgBoolFields.map fun (f, _) => f ++ "=" ++ bit (cfgBool o wd f)
      let strs := Generated.ColorOnlyCfg.styleSources.flatMap fun (_, sf, df) =>
        [sf ++ "=" ++ hexOfString (o.str sf), df ++ "=" ++ hexOfString (o.str df)]
      "ok " ++ " ".intercalate
        (["requested=" ++ bit (o0.bool "color_only")] ++ bools ++
         ["tab=" ++ toString (o.nat Generated.ColorOnlyCfg.cfgTabField),
          "strip=" ++ bit (evalB o wd Generated.ColorOnlyCfg.stripGuard)] ++ strs)
    | _, _, _, _, _, _, _, _, _, _ => "ERR"
  | _ => "ERR"

def main : IO Unit := serve stepCo
