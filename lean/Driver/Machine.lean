import DeltaModel.Proto
import DeltaModel.Machine
import DeltaModel.IngestMachine
import DeltaModel.InputPath
import DeltaModel.ColorOnlyPaint
/-!
Model driver for the line state machine.

Request:  `machine.run <cfg> <line> <line> ...`
  <cfg>  = comma separated `key=value` (value: nat, or x-hex string), e.g.
           `colorOnly=0,fileRaw=0,fileOmit=0,fileDeco=1,...`
  <line> = `raw/text/g.g.g/commitRe/blame/grep/submodule` (x-hex strings; graphemes joined
           by `.`; submodule `-` or x-hex)
          `machine.runraw <cfg> <maxLen> <items of the truncation symbol> <rawline> <rawline> ...`  (C01, session 4)
  <rawline> = `chars/tz/items/g.g.g/commitRe/blame/grep/submodule`: the input line, the CR test, the partition of
           the CR-processed line (<items> = `-` or items joined by `|`: `T<cluster>,<width>;...` / `E<escape sequence>`),
           and the facts of the ingested line; the lines are ingested by `IngestMachine.toL` and run as above;
           response: as `machine.run` plus a last field `<raw_line>/<line>;...` (what the ingest model made)
Response: `ok <rows> <obs>;<obs>;...`
  <rows> = `kind:text:src` joined by `,` (`-` if none); <obs> per line (and one for the end) =
           `state,outRows,bufRows,minus,plus,orderOk`
-/
open Proto Machine Headers

def kv (s : String) : List (String × String) :=
  (s.splitOn ",").filterMap fun p =>
    match p.splitOn "=" with
    | [k, v] => some (k, v)
    | _ => none

def getNat (m : List (String × String)) (k : String) (d : Nat) : Nat :=
  match m.lookup k with
  | some v => v.toNat?.getD d
  | none => d

def getStr (m : List (String × String)) (k : String) (d : Str) : Str :=
  match m.lookup k with
  | some v => (stringOfField v).map String.toList |>.getD d
  | none => d

def decoOf : Nat → Deco
  | 1 => .box | 2 => .boxUl | 3 => .ul | 4 => .ol | 5 => .ulol | _ => .none

def elemStyle (m : List (String × String)) (p : String) : ElemStyle :=
  { isRaw := getNat m (p ++ "Raw") 0 = 1, isOmitted := getNat m (p ++ "Omit") 0 = 1,
    deco := decoOf (getNat m (p ++ "Deco") 0) }

def cfgOf (s : String) : Cfg :=
  let m := kv s
  let d : Cfg := {}
  { colorOnly := getNat m "colorOnly" 0 = 1
    commitStyle := elemStyle m "commit"
    fileStyle := elemStyle m "file"
    hunkHeaderStyle := elemStyle m "hh"
    zeroStyle := elemStyle m "zero"
    minusStyle := elemStyle m "minus"
    plusStyle := elemStyle m "plus"
    grepHeaderStyle := elemStyle m "grepHeader"
    keepMarkers := getNat m "keepMarkers" 0 = 1
    tab := getNat m "tab" 8
    bufSize := getNat m "bufSize" 32
    mergeConflicts := getNat m "mergeConflicts" 1 = 1
    labels := { modified := getStr m "lblModified" d.labels.modified
                added := getStr m "lblAdded" d.labels.added
                removed := getStr m "lblRemoved" d.labels.removed
                renamed := getStr m "lblRenamed" d.labels.renamed
                copied := getStr m "lblCopied" d.labels.copied
                rightArrow := getStr m "rightArrow" d.labels.rightArrow }
    hunkLabel := getStr m "hunkLabel" []
    hhFile := getNat m "hhFile" 0 = 1
    hhLineNumber := getNat m "hhLineNumber" 1 = 1
    hhFragment := getNat m "hhFragment" 1 = 1
    mcBeginSymbol := getStr m "mcBegin" d.mcBeginSymbol
    mcEndSymbol := getStr m "mcEnd" d.mcEndSymbol }

def lineOf (s : String) : Option L :=
  match s.splitOn "/" with
  | [raw, text, gs, c, b, g, sub] => do
    let raw ← stringOfField raw
    let text ← stringOfField text
    let gl ← if gs = "" then some [] else (gs.splitOn ".").mapM fun f => (stringOfField f).map String.toList
    let sub ← if sub = "-" then some none else (stringOfField sub).map (fun x => some x.toList)
    pure { raw := raw.toList, text := text.toList, graphemes := gl, commitRe := c = "1",
           blame := b = "1", grep := g.toNat?.getD 0, submodule := sub }
  | _ => none

def kindName : RowKind → String
  | .raw => "raw" | .commit => "commit" | .file => "file" | .hunkHeader => "hunkHeader"
  | .minus => "minus" | .plus => "plus" | .zero => "zero" | .other => "other" | .blank => "blank"
  | .deco => "deco" | .mcBar => "mcBar" | .mcHeader => "mcHeader" | .submodule => "submodule"
  | .blame => "blame" | .grep => "grep"

def stateName : State → String
  | .commitMeta => "CommitMeta" | .diffHeader _ => "DiffHeader" | .hunkHeader .. => "HunkHeader"
  | .hunkZero _ => "HunkZero" | .hunkMinus _ => "HunkMinus" | .hunkPlus _ => "HunkPlus"
  | .mergeConflict .. => "MergeConflict" | .submoduleLog => "SubmoduleLog"
  | .submoduleShort _ => "SubmoduleShort" | .blame => "Blame" | .gitShowFile => "GitShowFile"
  | .grep => "Grep" | .unknown => "Unknown"

def rowStr (r : Row) : String :=
  kindName r.kind ++ ":" ++ hexOfString (String.ofList r.text) ++ ":" ++ toString r.src

def obsStr (name : String) (m : M) : String :=
  name ++ "," ++ toString m.out.length ++ "," ++ toString m.buf.length ++ "," ++
    toString m.minus.length ++ "," ++ toString m.plus.length ++ "," ++ (if m.orderOk then "1" else "0")

def runObs (cfg : Cfg) : M → List L → List String → Except String (M × List String)
  | m, [], acc => .ok (m, acc.reverse)
  | m, l :: ls, acc =>
    match step cfg m l with
    | .error e => .error e
    | .ok m' => runObs cfg m' ls (obsStr (stateName m'.st) m' :: acc)

def stepMachine (line : String) : String :=
  match fields line with
  | "machine.run" :: cfg :: ls =>
    match ls.mapM lineOf with
    | none => "ERR bad line"
    | some ls =>
      let cfg := cfgOf cfg
      match runObs cfg {} ls [] with
      | .error e => "PANIC " ++ hexOfString e
      | .ok (m, obs) =>
        match finish cfg m with
        | .error e => "PANIC " ++ hexOfString e
        | .ok mf =>
          let rows := if mf.out = [] then "-" else ",".intercalate (mf.out.map rowStr)
          "ok " ++ rows ++ " " ++ ";".intercalate (obs ++ [obsStr "End" mf])
  | _ => "ERR"

-- machine.runraw (C01 session 4): raw input lines through `IngestMachine` ----------------------------

def gOf (s : String) : Option Line.G :=
  match s.splitOn "," with
  | [g, w] => do
    let g ← stringOfField g
    let w ← w.toNat?
    pure ⟨g.toList, w⟩
  | _ => none

def itemOf (s : String) : Option Line.Item :=
  if s.startsWith "E" then (stringOfField (s.drop 1).toString).map fun e => Line.Item.esc e.toList
  else if s = "T" then some (.text [])
  else if s.startsWith "T" then ((s.drop 1).toString.splitOn ";").mapM gOf |>.map Line.Item.text
  else none

def itemsOf (s : String) : Option (List Line.Item) :=
  if s = "-" then some [] else (s.splitOn "|").mapM itemOf

def rawLineOf (s : String) : Option IngestMachine.RawLine :=
  match s.splitOn "/" with
  | [chars, tz, items, gs, c, b, g, sub] => do
    let chars ← stringOfField chars
    let items ← itemsOf items
    let gl ← if gs = "" then some [] else (gs.splitOn ".").mapM fun f => (stringOfField f).map String.toList
    let sub ← if sub = "-" then some none else (stringOfField sub).map (fun x => some x.toList)
    pure { chars := chars.toList, tailZeroWidth := tz = "1", items := items,
           facts := { raw := [], text := [], graphemes := gl, commitRe := c = "1", blame := b = "1",
                      grep := g.toNat?.getD 0, submodule := sub } }
  | _ => none

def stepMachineRaw (line : String) : String :=
  match fields line with
  | "machine.runraw" :: cfg :: maxLen :: sym :: rs =>
    match rs.mapM rawLineOf, itemsOf sym, maxLen.toNat? with
    | some rs, some sym, some maxLen =>
      let cfg := cfgOf cfg
      let ic : IngestMachine.ICfg := { maxLen := maxLen, sym := sym }
      match IngestMachine.ingestAll ic rs with
      | none => "PANIC " ++ hexOfString "debug_assert: strange grapheme width (truncate_str_impl)"
      | some ls =>
        let wf := rs.all fun r => r.wf
        match runObs cfg {} ls [] with
        | .error e => "PANIC " ++ hexOfString e
        | .ok (m, obs) =>
          match finish cfg m with
          | .error e => "PANIC " ++ hexOfString e
          | .ok mf =>
            let rows := if mf.out = [] then "-" else ",".intercalate (mf.out.map rowStr)
            let ing := ";".intercalate (ls.map fun l =>
              hexOfString (String.ofList l.raw) ++ "/" ++ hexOfString (String.ofList l.text))
            "ok " ++ rows ++ " " ++ ";".intercalate (obs ++ [obsStr "End" mf]) ++ " " ++
              (if ing = "" then "-" else ing) ++ " " ++ (if wf then "wf" else "notwf")
    | _, _, _ => "ERR bad raw line"
  | _ => stepMachine line

-- input.run (C11 session 4, T14): the pipe / reader-stack LTS of `DeltaModel/InputPath.lean` ---------------
-- Request:  `input.run <stdin|subcmd> <ev> <ev> ...`, <ev> = `w<x-hex bytes>` (producer writes a chunk), `c` (closes),
--           `s<n>` (one consumer step, read size hint n), `p<seed>` (the producer pauses: the consumer runs alone until it
--           cannot move, read sizes derived from seed; seed 0 = as much as there is; observation taken)
-- Response: `ok <obs>;<obs>;... <lines>`, <obs> per pause = `handed,curLen,blocked,done,pipeLen,bufLen`,
--           <lines> = the lines handed to the state machine so far (`linesToMachine`), hex, joined by `,` (`-` if none)

def inputEvs (p : InputPath.Prog) : InputPath.S → List String → List String → Option (InputPath.S × List String)
  | s, [], acc => some (s, acc.reverse)
  | s, f :: fs, acc =>
    match f.toList with
    | 'w' :: r => match bytesOfField (String.ofList r) with
      | some bs => inputEvs p (InputPath.apply p s (.write (bs.map UInt8.toNat))) fs acc
      | none => none
    | ['c'] => inputEvs p (InputPath.apply p s .close) fs acc
    | 's' :: r => match (String.ofList r).toNat? with
      | some n => inputEvs p (InputPath.apply p s (.cons n)) fs acc
      | none => none
    | 'p' :: r => match (String.ofList r).toNat? with
      | some seed =>
        let hint : Nat → Nat := if seed = 0 then fun _ => 1000000 else fun k => (seed + 7 * k) % 13 + 1
        let s' := InputPath.settle p hint (InputPath.fuelFor s) s
        let blocked := (InputPath.cstep p 1 s').isNone
        let o := toString s'.handed.length ++ "," ++ toString s'.cur.length ++ "," ++ (if blocked then "1" else "0") ++ "," ++
          (if s'.done then "1" else "0") ++ "," ++ toString s'.pipe.length ++ "," ++ toString s'.buf.length
        inputEvs p s' fs (o :: acc)
      | none => none
    | _ => none

def stepInput (line : String) : String :=
  match fields line with
  | "input.run" :: branch :: evs =>
    let p := if branch = "subcmd" then InputPath.subcmdProg else InputPath.stdinProg
    match inputEvs p (InputPath.init p) evs [] with
    | none => "ERR bad event"
    | some (s, obs) =>
      let ls := (InputPath.linesToMachine s).map fun l => hexOfBytes (l.map fun b => UInt8.ofNat b)
      "ok " ++ (if obs = [] then "-" else ";".intercalate obs) ++ " " ++ (if ls = [] then "-" else ",".intercalate ls)
  | _ => stepMachineRaw line

-- copaint.block (C02 session 4, T16): the bytes `paint_lines` writes for a block of hunk lines, stripped ---------------
-- Request:  `copaint.block <keep-markers 0|1> <line> <line> ...`,
--   <line> = `<m|z|p>/<u|c|k>/<prefix>/<sec>.<sec>…/<real>`: line kind; diff type (u = unified, c = combined with the line's
--            prefix columns carried by the state, k = combined inside a merge conflict); the prefix columns (x-hex); the text of
--            the superimposed sections (x-hex each, painted in styles that differ from section to section); the line the real
--            binary wrote (x-hex, escape sequences included)
-- Response: `ok <model>/<real>/<row>;...` per line: `ColorOnlyPaint.visible` of the model's painted bytes
--            (`ColorOnlyPaint.paintedBlock` = `PaintLine.paintedLine` per line from `stOf kind dt`), `visible` of the real line,
--            and the machine row text `Machine.paintedPrefix … ++ <section texts>`; all x-hex. `ERR <why>` otherwise.

def coPalette : List Sgr.Style :=
  [{ fg := some (.basic 1) }, { bg := some (.fixed 22), bold := true }, {}, { fg := some (.rgb 1 2 3), underline := true }]

def coLine (f : String) : Option (LineKind × DiffType × List (List Char) × List Char) :=
  match f.splitOn "/" with
  | [k, d, p, secs, real] => do
    let k ← (match k with | "m" => some LineKind.minus | "z" => some .zero | "p" => some .plus | _ => none)
    let p ← (stringOfField p).map String.toList
    let dt ← (match d with
      | "u" => some DiffType.unified
      | "c" => some (.combined (.pre p) false)
      | "k" => some (.combined (.pre p) true)
      | _ => none)
    let secs ← (secs.splitOn ".").mapM fun s => (stringOfField s).map String.toList
    let real ← (stringOfField real).map String.toList
    pure (k, dt, secs, real)
  | _ => none

def stepCoPaint (line : String) : String :=
  match fields line with
  | "copaint.block" :: keep :: ls =>
    match ls.mapM coLine with
    | none => "ERR bad line"
    | some xs =>
      let pc : PaintLine.Cfg := { minusStyle := (coPalette.getD 0 {}), zeroStyle := (coPalette.getD 2 {}), plusStyle := (coPalette.getD 1 {}),
                                  keepMarkers := keep == "1" }
      let mc : Machine.Cfg := { keepMarkers := keep == "1" }
      let inps : List PaintLine.Input := xs.map fun (k, dt, secs, _) =>
        { st := ColorOnlyPaint.stOf k dt false,
          sections := secs.zipIdx.map (fun (t, i) => (coPalette.getD (i % 4) {}, PaintLine.asciiClusters t)),
          bg := .with_ .ansi }
      match ColorOnlyPaint.paintedBlock pc inps with
      | .error e => "ERR " ++ hexOfString e
      | .ok outs =>
        "ok " ++ ";".intercalate ((xs.zip outs).map fun ((k, dt, secs, real), out) =>
          hexOfString (String.ofList (ColorOnlyPaint.visible out)) ++ "/" ++
          hexOfString (String.ofList (ColorOnlyPaint.visible real)) ++ "/" ++
          hexOfString (String.ofList (Machine.paintedPrefix mc k dt ++ secs.flatten)))
  | _ => stepInput line

def main : IO Unit := serve stepCoPaint
