import DeltaModel.Proto
import DeltaModel.Grep
import DeltaModel.RipGrepJson
import DeltaModel.GrepRow
import DeltaModel.GrepHelper
import DeltaModel.GrepInput
/-!
Model driver for C16 (`drv_grep`). Mirrors the ops of /repo/src/verif_hooks/grep.rs.

  grep.parse <xline>                  parse_grep_line, text line, grep calling process
  grep.parse_nocaller <xline>         parse_grep_line, text line, no grep calling process
  grep.parse_regex <idx> <xline>      _parse_grep_line with regex idx (0 colour, 1..4 plain)
  grep.json_rec <kind> <xpath> <num|-> <xtext> <n> <a> <b> ...   parse_line on a RipGrepLine
  grep.json_meta <xtype>              parse_line on another JSON value with that "type"
  grep.json_invalid                   parse_line on something else
  grep.json_value <tok>*              parse_line on a decoded JSON value (DeltaModel/RipGrepJson.lean: the record structs
                                      regenerated from the source decide what is accepted). Prefix notation:
                                      N | T | F | I<dec> | R (a number that is not a non-negative integer literal) | S<xhex>
                                      | A<n> value*n | O<n> (K<xhex> value)*n
  grep.json_emit <otype> <tabw> <hdr> <nlines> (<xraw> <tok>* ;)*   the rows of the stream of these JSON lines (`;` ends a line)
  grep.row_cells <navigate 0|1> <xsepsymbol> <caller> <k> <xopt>*k <otype> <tabw> <nlines> <lines as for grep.emit>
                                      the stream's rows with the cells of every classic-style hit row (DeltaModel/GrepRow.lean):
                                      `L<n> <paint><xtext>…` (f path, n number, p plain, w/l/c code styles) or `X`; the
                                      `make_output_config` flags are computed from caller and options
  grep.rows_text <xlabel> <fileplain 0|1> <hhfile 0|1> <hhnum 0|1> <navigate 0|1> <xsepsymbol> <caller> <k> <xopt>*k <otype> <tabw> <nlines> <lines as for grep.emit>
                                      the visible text of every row of the stream (DeltaModel/GrepHelper.lean: ripgrep-style rows, path
                                      headers and the function-context header through the regenerated helper calls; classic hit rows
                                      through GrepRow): `ok <n> | <xtext>|-` (`-`: no line written)
  grep.line_of_text <tabw> <xraw>     the dispatch of handle_grep_line on a text line free of escape sequences (DeltaModel/GrepInput.lean,
                                      strip = identity): `H <kind> <xpath> <num|-> <xcode>` or `O`
  grep.fragment <kind> <xpath> <xdigits|-> <xcode>     which theorem fragment covers the record (A numbered / B unnumbered, short extension, no blanks / B2 unnumbered, extension up to 10, blanks / C extension-less / -), model round trip, fmtPlain
  grep.fmt_coloured <kind> <xpath> <xdigits|-> <xcode> model round trip, fmtColoured
  grep.sections <xcode> <n> <a> <b> ...
  grep.expand_sections <tabw> <xcode> <n> <a> <b> ...
  grep.emit <otype> <tabw> <hdr> <nlines> (H <gt> <kind> <xpath> <num|-> <pok> <xcode> <-|n a b..> | O <xraw>)*
-/
open Proto Grep

def kindWord : Kind → String
  | .match_ => "match" | .context => "context" | .contextHeader => "contextheader"
  | .fileHeader => "fileheader" | .ignore => "ignore"

def kindOfWord (s : String) : Option Kind :=
  [Kind.match_, .context, .contextHeader, .fileHeader, .ignore].find? fun k => kindWord k = s

def gtWord : GrepType → String
  | .classic => "classic" | .ripgrep => "ripgrep"

def gtOfWord (s : String) : Option GrepType :=
  if s = "classic" then some .classic else if s = "ripgrep" then some .ripgrep else none

def hexChars (l : List Char) : String := hexOfString (String.ofList l)

def optNat : Option Nat → String
  | some n => toString n
  | none => "-"

def showSubs : Option (List (Nat × Nat)) → String
  | none => "-"
  | some v => v.foldl (fun s p => s ++ " " ++ toString p.1 ++ " " ++ toString p.2) (toString v.length)

def showRec : Option Rec → String
  | none => "ok none"
  | some r =>
    "ok some " ++ gtWord r.gtype ++ " " ++ kindWord r.kind ++ " " ++ hexChars r.path ++ " " ++
      optNat r.num ++ " " ++ hexChars r.code ++ " " ++ showSubs r.subs

def charsOfField (f : String) : Option (List Char) := (stringOfField f).map String.toList

def optNatOfField (f : String) : Option (Option Nat) :=
  if f = "-" then some none else (natOfField f).map some

/-- `n a1 b1 ... an bn` from the front of `fs`; returns the spans and the remaining fields. -/
def takeSpans (fs : List String) : Option (List (Nat × Nat) × List String) :=
  match fs with
  | [] => none
  | n :: rest =>
    match natOfField n with
    | none => none
    | some n =>
      let rec go : Nat → List String → List (Nat × Nat) → Option (List (Nat × Nat) × List String)
        | 0, fs, acc => some (acc.reverse, fs)
        | k + 1, a :: b :: fs, acc =>
          match natOfField a, natOfField b with
          | some a, some b => go k fs ((a, b) :: acc)
          | _, _ => none
        | _, _, _ => none
      go n rest []

def secsField (p : Bool × Bytes) : String :=
  (if p.1 then "m" else "n") ++ hexOfBytes p.2

def showSecs' (secs : List (Bool × Bytes)) : String :=
  secs.foldl (fun s p => s ++ " " ++ secsField p) (toString secs.length)

def showRow : Row → String
  | .blank => "B"
  | .header p => "H " ++ hexChars p
  | .sep => "S"
  | .raw l => "R " ++ hexOfBytes l
  | .code p n k secs trail =>
    "C " ++ (match p with | some p => hexChars p | none => "-") ++ " " ++ optNat n ++ " " ++
      kindWord k ++ " " ++ (if trail then "1" else "0") ++ " " ++ showSecs' secs
  | .funcHeader p n t => "F " ++ hexChars p ++ " " ++ optNat n ++ " " ++ hexOfBytes t

def parseLines : Nat → List String → List Line → Option (List Line)
  | 0, [], acc => some acc.reverse
  | 0, _ :: _, _ => none
  | k + 1, "O" :: raw :: fs, acc =>
    match bytesOfField raw with
    | some b => parseLines k fs (Line.other b :: acc)
    | none => none
  | k + 1, "H" :: gt :: kind :: path :: num :: pok :: code :: fs, acc =>
    match gtOfWord gt, kindOfWord kind, charsOfField path, optNatOfField num, bytesOfField code with
    | some gt, some kind, some path, some num, some code =>
      let mk (subs : Option (List (Nat × Nat))) (fs : List String) :=
        parseLines k fs (Line.hit { gtype := gt, kind := kind, path := path, num := num,
                                    prefixOk := pok = "1", code := code, subs := subs } :: acc)
      match fs with
      | "-" :: fs => mk none fs
      | fs =>
        match takeSpans fs with
        | some (sp, fs) => mk (some sp) fs
        | none => none
    | _, _, _, _, _ => none
  | _, _, _ => none

/-- One JSON value in prefix notation from the front of the token list. `fuel`: at most the number of tokens. -/
def takeJVal : Nat → List String → Option (RipGrepJson.JVal × List String)
  | 0, _ => none
  | fuel + 1, tok :: rest =>
    let tag := tok.toList.head?
    let arg := String.ofList (tok.toList.drop 1)
    match tag with
    | some 'N' => some (.null, rest)
    | some 'T' => some (.bool true, rest)
    | some 'F' => some (.bool false, rest)
    | some 'R' => some (.otherNum, rest)
    | some 'I' => (natOfField arg).map fun n => (.nat n, rest)
    | some 'S' => (stringOfField arg).map fun s => (.str s, rest)
    | some 'A' =>
      match natOfField arg with
      | none => none
      | some n =>
        let rec items : Nat → List String → List RipGrepJson.JVal → Option (List RipGrepJson.JVal × List String)
          | 0, fs, acc => some (acc.reverse, fs)
          | k + 1, fs, acc =>
            match takeJVal fuel fs with
            | some (v, fs) => items k fs (v :: acc)
            | none => none
        (items n rest []).map fun p => (.arr p.1, p.2)
    | some 'O' =>
      match natOfField arg with
      | none => none
      | some n =>
        let rec members : Nat → List String → List (String × RipGrepJson.JVal) →
            Option (List (String × RipGrepJson.JVal) × List String)
          | 0, fs, acc => some (acc.reverse, fs)
          | k + 1, key :: fs, acc =>
            match key.toList with
            | 'K' :: kc =>
              match stringOfField (String.ofList kc), takeJVal fuel fs with
              | some kname, some (v, fs) => members k fs ((kname, v) :: acc)
              | _, _ => none
            | _ => none
          | _, _, _ => none
        (members n rest []).map fun p => (.obj p.1, p.2)
    | _ => none
  | _, [] => none

/-- `(<xraw> <tok>* ;)*` → the lines of a stream as `RipGrepJson.lineOf` reads them. -/
def takeJsonLines : Nat → List String → List Line → Option (List Line)
  | 0, [], acc => some acc.reverse
  | k + 1, raw :: fs, acc =>
    match bytesOfField raw, takeJVal (fs.length + 1) fs with
    | some raw, some (v, ";" :: fs) => takeJsonLines k fs (RipGrepJson.lineOf v raw :: acc)
    | some raw, none =>
      -- not JSON at all: `-` stands for the value
      match fs with
      | "-" :: ";" :: fs => takeJsonLines k fs (Line.other raw :: acc)
      | _ => none
    | _, _ => none
  | _, _, _ => none

def paintLetter : GrepRow.Paint → String
  | .file => "f" | .number => "n" | .plain => "p" | .word => "w" | .line => "l" | .context => "c" | .unknown => "u"

def showCells (cfg : GrepRow.Cfg) (r : Row) : String :=
  match GrepRow.rowCells cfg r with
  | some cells => cells.foldl (fun s c => s ++ " " ++ paintLetter c.1 ++ hexOfBytes c.2) ("L" ++ toString cells.length)
  | none => "X"

def takeStrings : Nat → List String → List String → Option (List String × List String)
  | 0, fs, acc => some (acc.reverse, fs)
  | k + 1, f :: fs, acc =>
    match stringOfField f with
    | some s => takeStrings k fs (s :: acc)
    | none => none
  | _, _, _ => none

def stepGrepJson (fs : List String) : Option String :=
  match fs with
  | "grep.row_cells" :: nav :: sep :: caller :: k :: rest =>
    match stringOfField sep, natOfField k with
    | some sep, some k =>
      match takeStrings k rest [] with
      | some (opts, ot :: w :: n :: rest) =>
        let ot : Option (Option GrepType) := if ot = "-" then some none else (gtOfWord ot).map some
        match ot, natOfField w, natOfField n with
        | some ot, some w, some n =>
          match parseLines n rest [] with
          | some lines =>
            let out := GrepRow.outputConfig caller opts
            let rcfg : GrepRow.Cfg := { navigate := nav = "1", sepSymbol := sep, out := out }
            match emit { outputType := ot, tabWidth := w, headerAsHunkHeader := out.headerAsHunk } lines with
            | .ok rows => some (rows.foldl (fun s r => s ++ " | " ++ showCells rcfg r) ("ok " ++ toString rows.length))
            | .error e => some ("PANIC " ++ reprStr e)
          | none => none
        | _, _, _ => none
      | _ => none
    | _, _ => none
  | "grep.json_value" :: toks =>
    match takeJVal (toks.length + 1) toks with
    | some (v, []) => some (showRec (RipGrepJson.parseLine v))
    | _ => none
  | "grep.json_emit" :: ot :: w :: hdr :: n :: rest =>
    let ot : Option (Option GrepType) := if ot = "-" then some none else (gtOfWord ot).map some
    match ot, natOfField w, natOfField n with
    | some ot, some w, some n =>
      match takeJsonLines n rest [] with
      | some lines =>
        match emit { outputType := ot, tabWidth := w, headerAsHunkHeader := hdr = "1" } lines with
        | .ok rows => some (rows.foldl (fun s r => s ++ " | " ++ showRow r) ("ok " ++ toString rows.length))
        | .error e => some ("PANIC " ++ reprStr e)
      | none => none
    | _, _, _ => none
  | _ => none

/-- `grep.rows_text`, `grep.line_of_text` (session 4 / T23). -/
def stepGrepText (fs : List String) : Option String :=
  match fs with
  | "grep.rows_text" :: label :: fp :: hf :: hn :: nav :: sep :: caller :: k :: rest =>
    match bytesOfField label, stringOfField sep, natOfField k with
    | some label, some sep, some k =>
      match takeStrings k rest [] with
      | some (opts, ot :: w :: n :: rest) =>
        let ot : Option (Option GrepType) := if ot = "-" then some none else (gtOfWord ot).map some
        match ot, natOfField w, natOfField n with
        | some ot, some w, some n =>
          match parseLines n rest [] with
          | some lines =>
            let out := GrepRow.outputConfig caller opts
            let rcfg : GrepRow.Cfg := { navigate := nav = "1", sepSymbol := sep, out := out }
            let hc : GrepHelper.HCfg := { hunkLabel := label, filePlain := fp = "1", hhFile := hf = "1", hhLineNumber := hn = "1" }
            match emit { outputType := ot, tabWidth := w, headerAsHunkHeader := out.headerAsHunk } lines with
            | .ok rows =>
              let texts := rows.map fun r =>
                match GrepRow.rowCells rcfg r with
                | some cells => some (GrepRow.rowText cells)
                | none => GrepHelper.rowText hc r
              some (texts.foldl (fun s t => s ++ " | " ++ (match t with | some t => hexOfBytes t | none => "-"))
                ("ok " ++ toString texts.length))
            | .error e => some ("PANIC " ++ reprStr e)
          | none => none
        | _, _, _ => none
      | _ => none
    | _, _, _ => none
  | ["grep.line_of_text", w, raw] =>
    match natOfField w, charsOfField raw with
    | some w, some raw =>
      match GrepInput.lineOfInput w id (.text raw) with
      | .hit h => some ("H " ++ kindWord h.kind ++ " " ++ hexChars h.path ++ " " ++ optNat h.num ++ " " ++ hexOfBytes h.code)
      | .other _ => some "O"
    | _, _ => none
  | _ => none

def stepGrep (line : String) : String :=
  match fields line with
  | ["grep.parse", l] =>
    match charsOfField l with
    | some l => showRec ((parsePlain l).map ofParsed)
    | none => "ERR"
  | ["grep.parse_nocaller", _] => "ok none"
  | ["grep.parse_regex", i, l] =>
    match natOfField i, charsOfField l with
    | some 0, some l => showRec ((parseColoured l).map ofParsed)
    | some 1, some l => showRec ((parseVariant .extNum l).map ofParsed)
    | some 2, some l => showRec ((parseVariant .extNoSpaces l).map ofParsed)
    | some 3, some l => showRec ((parseVariant .ext l).map ofParsed)
    | some 4, some l => showRec ((parseVariant .noSep l).map ofParsed)
    | _, _ => "ERR"
  | ["grep.fragment", kind, path, digits, code] =>
    -- which round-trip theorem (if any) covers this record, and the model's own round trip
    let digits : Option (Option (List Char)) := if digits = "-" then some none else (charsOfField digits).map some
    match kindOfWord kind, charsOfField path, digits, charsOfField code with
    | some kind, some path, some digits, some code =>
      let p : Parsed := { path := path, kind := kind, digits := digits, code := code }
      let frag := if fragNumbered p then "A" else if fragUnnumbered p then "B" else if fragUnnumberedExt p then "B2"
        else if fragNoExt p then "C" else "-"
      let rt := if parsePlain (fmtPlain p) = some p then "1" else "0"
      "ok " ++ frag ++ " " ++ rt ++ " " ++ hexChars (fmtPlain p)
    | _, _, _, _ => "ERR"
  | ["grep.fmt_coloured", kind, path, digits, code] =>
    let digits : Option (Option (List Char)) := if digits = "-" then some none else (charsOfField digits).map some
    match kindOfWord kind, charsOfField path, digits, charsOfField code with
    | some kind, some path, some digits, some code =>
      let p : Parsed := { path := path, kind := kind, digits := digits, code := code }
      let rt := if parseColoured (fmtColoured p) = some p then "1" else "0"
      "ok " ++ rt ++ " " ++ hexChars (fmtColoured p)
    | _, _, _, _ => "ERR"
  | "grep.json_rec" :: kind :: path :: num :: text :: rest =>
    match kindOfWord kind, charsOfField path, optNatOfField num, charsOfField text, takeSpans rest with
    | some kind, some path, some num, some text, some (subs, []) =>
      showRec (some (ofJson { kind := kind, path := path, num := num, text := text, subs := subs }))
    | _, _, _, _, _ => "ERR"
  | ["grep.json_meta", t] =>
    match stringOfField t with
    | some t => showRec (ofJsonMeta t)
    | none => "ERR"
  | ["grep.json_invalid"] => "ok none"
  | "grep.sections" :: code :: rest =>
    match bytesOfField code, takeSpans rest with
    | some code, some (subs, []) =>
      match makeStyleSections code subs with
      | .ok secs => "ok " ++ showSecs' secs
      | .error e => "PANIC " ++ reprStr e
    | _, _ => "ERR"
  | "grep.expand_sections" :: w :: code :: rest =>
    match natOfField w, bytesOfField code, takeSpans rest with
    | some w, some code, some (subs, []) =>
      let (code', subs') := expandTabs w code subs
      match makeStyleSections code' subs' with
      | .ok secs => "ok " ++ hexOfBytes code' ++ " " ++ showSubs (some subs') ++ " | " ++ showSecs' secs
      | .error e => "PANIC " ++ reprStr e
    | _, _, _ => "ERR"
  | "grep.emit" :: ot :: w :: hdr :: n :: rest =>
    let ot : Option (Option GrepType) := if ot = "-" then some none else (gtOfWord ot).map some
    match ot, natOfField w, natOfField n with
    | some ot, some w, some n =>
      match parseLines n rest [] with
      | some lines =>
        match emit { outputType := ot, tabWidth := w, headerAsHunkHeader := hdr = "1" } lines with
        | .ok rows => rows.foldl (fun s r => s ++ " | " ++ showRow r) ("ok " ++ toString rows.length)
        | .error e => "PANIC " ++ reprStr e
      | none => "ERR"
    | _, _, _ => "ERR"
  | fs => ((stepGrepJson fs).orElse fun _ => stepGrepText fs).getD "ERR"

def main : IO Unit := serve stepGrep
