import DeltaModel.Proto
import DeltaModel.Edits
import DeltaModel.EditsSubhunk
/-!
Model driver for the `edits.*` ops (protocol: /repo/src/verif_hooks/edits.rs).
A model error (a Rust panic point reached) prints `PANIC <msg>`.
-/
open Proto Edits Align Generated.Align

def charsOfHex (h : String) : Option (List Char) := do
  let bs ← bytesOfHexChars h.toList
  let s ← String.fromUTF8? (ByteArray.mk bs.toArray)
  pure s.toList

def parseCluster (c : String) : Option G :=
  match c.splitOn ":" with
  | [h, w, ws] => do
    let s ← charsOfHex h
    let w ← w.toNat?
    pure ⟨s, w, ws == "1"⟩
  | _ => none

def parseSpan (c : String) : Option (Nat × Nat) :=
  match c.splitOn "-" with
  | [a, b] => do pure (← a.toNat?, ← b.toNat?)
  | _ => none

def parseList {β} (f : String → Option β) (s : String) : Option (List β) :=
  if s.isEmpty then some [] else (s.splitOn ",").mapM f

/-- `L<cluster>,…;<s>-<e>,…` -/
def parseLineField (f : String) : Option Line :=
  match f.toList with
  | 'L' :: rest =>
    match (String.ofList rest).splitOn ";" with
    | [cs, sp] => do pure ⟨← parseList parseCluster cs, ← parseList parseSpan sp⟩
    | _ => none
  | _ => none

def bareHex (cs : List Char) : String := String.ofList ((hexOfString (String.ofList cs)).toList.drop 1)

def showSections (secs : List Section) : String :=
  ",".intercalate (secs.map fun s => toString s.tag ++ ":" ++ bareHex (text s.gs))

def showLines (ls : List (List Section)) : String :=
  toString ls.length ++ ";" ++ "|".intercalate (ls.map showSections)

def opLetter : Op → Char
  | .noOp => 'N'
  | .deletion => 'D'
  | .insertion => 'I'

def showOptIdx : Option Nat → String
  | some i => toString i
  | none => "-"

def showBits (bs : List Bool) : String := String.ofList (bs.map fun b => if b then '1' else '0')

/-- A decimal such as `0.6`, `1`, `1.0` as a fraction. -/
def parseDecimal (s : String) : Option (Nat × Nat) :=
  match s.splitOn "." with
  | [a] => do pure (← a.toNat?, 1)
  | [a, b] => do
    let ia ← a.toNat?
    let ib ← if b.isEmpty then some 0 else b.toNat?
    pure (ia * 10 ^ b.length + ib, 10 ^ b.length)
  | _ => none

/-- `<n> <xtok>*n` → tokens (texts) and the remaining fields. -/
def readToks : List String → Option (List (List Char) × List String)
  | [] => none
  | n :: rest => do
    let n ← n.toNat?
    if rest.length < n then none
    else
      let toks ← (rest.take n).mapM fun f => (stringOfField f).map (·.toList)
      pure (toks, rest.drop n)

/-- `<n> (<xline> <tag> <L>)*n` → lines, tags, remaining fields. -/
def readLines : List String → Option (List Line × List Tag × List String)
  | [] => none
  | n :: rest => do
    let n ← n.toNat?
    let rec go : Nat → List String → Option (List Line × List Tag × List String)
      | 0, fs => some ([], [], fs)
      | k + 1, _ :: tag :: l :: fs => do
        let t ← tag.toNat?
        let ln ← parseLineField l
        let (ls, ts, r) ← go k fs
        pure (ln :: ls, t :: ts, r)
      | _, _ => none
    go n rest

def stepEdits (line : String) : String :=
  match fields line with
  | ["edits.tokenize", _, _, l] =>
    match parseLineField l with
    | none => "ERR"
    | some ln =>
      match tokenize ln.gs ln.spans with
      | .error e => "PANIC " ++ e
      | .ok toks => "ok " ++ " ".intercalate (toks.map fun t => hexOfString (String.ofList (text t)))
  | "edits.align" :: rest =>
    match readToks rest with
    | none => "ERR"
    | some (x, rest) =>
      match readToks rest with
      | some (y, []) =>
        match operationsAndCost x y with
        | .error e => "PANIC " ++ e
        | .ok (ops, cost) => "ok " ++ String.ofList (ops.map opLetter) ++ " " ++ toString cost
      | _ => "ERR"
  | ["edits.annotate", _, _, _, nd, d, ni, i, lm, lp] =>
    match nd.toNat?, d.toNat?, ni.toNat?, i.toNat?, parseLineField lm, parseLineField lp with
    | some nd, some d, some ni, some i, some lm, some lp =>
      match annotatePair ⟨nd, d, ni, i⟩ lm lp with
      | .error e => "PANIC " ++ e
      | .ok a => "ok M=" ++ showSections a.minus ++ " P=" ++ showSections a.plus
                  ++ " D=" ++ toString a.numer ++ "/" ++ toString a.denom
    | _, _, _, _, _, _ => "ERR"
  | "edits.infer" :: _ :: mx :: nv :: d :: i :: rest =>
    match parseDecimal mx, parseDecimal nv, d.toNat?, i.toNat?, readLines rest with
    | some (mp, mq), some (np, nq), some d, some i, some (minus, mtags, rest) =>
      match readLines rest with
      | some (plus, ptags, []) =>
        match inferEdits ⟨d, i, mp, mq, np, nq⟩ minus plus mtags ptags with
        | .error e => "PANIC " ++ e
        | .ok r =>
          let h := makeLinesHaveHomolog r.alignment
          "ok A=" ++ ",".intercalate (r.alignment.map fun (m, p) => showOptIdx m ++ ":" ++ showOptIdx p)
            ++ " M=" ++ showLines r.minus ++ " P=" ++ showLines r.plus
            ++ " D=" ++ ",".intercalate (r.dists.map fun (m, p, n, dn) =>
                  toString m ++ ":" ++ toString p ++ ":" ++ toString n ++ "/" ++ toString dn)
            ++ " H=" ++ showBits h.1 ++ ":" ++ showBits h.2
      | _ => "ERR"
    | _, _, _, _, _ => "ERR"
  | ["edits.subhunks", bs, ks] =>
    -- kinds: m = removed, p = added, z = context, o = other; answer: blocks `m,m:p,p` joined by `;`
    let kind? : Char → Option Subhunk.Kind := fun c =>
      if c = 'm' then some .minus else if c = 'p' then some .plus else if c = 'z' then some .zero
      else if c = 'o' then some .other else none
    match bs.toNat?, ks.toList.mapM kind? with
    | some b, some kinds =>
      let showIdx := fun (l : List Nat) => ",".intercalate (l.map toString)
      "ok " ++ ";".intercalate ((Subhunk.subhunks b kinds).map fun blk => showIdx blk.1 ++ ":" ++ showIdx blk.2)
    | _, _ => "ERR"
  | _ => "ERR"

def main : IO Unit := serve stepEdits
