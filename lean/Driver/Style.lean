import DeltaModel.Proto
import DeltaModel.Sgr
import DeltaModel.Term
import DeltaModel.Style
import DeltaModel.PaintLine
import DeltaModel.BlameMeta
import DeltaModel.DecoWords
/-!
Model driver `drv_style` (C12, C09): answers the `style.*` requests of
/repo/src/verif_hooks/style.rs from the Lean model (same dump formats; see that file).
Requests that need the `ansi256_from_rgb` oracle carry it as an extra field
`r,g,b:n;r,g,b:n;…` (or `-`).
-/
open Proto

namespace DrvStyle
open Sgr (Color Attr)
open DeltaStyle

def natsOf (s : String) (sep : String) : Option (List Nat) := (s.splitOn sep).mapM String.toNat?

def dumpColor : Option Color → String
  | none => "-"
  | some (.basic n) => s!"b{n}"
  | some (.fixed n) => s!"f{n}"
  | some (.rgb r g b) => s!"r{r},{g},{b}"

def parseColorField (f : String) : Option (Option Color) :=
  if f = "-" then some none
  else match f.toList with
    | 'b' :: r => (String.ofList r).toNat?.bind fun n => if n < 8 then some (some (.basic n)) else none
    | 'f' :: r => (String.ofList r).toNat?.map fun n => some (.fixed n)
    | 'r' :: r => match natsOf (String.ofList r) "," with
      | some [a, b, c] => some (some (.rgb a b c))
      | _ => none
    | _ => none

def bit (b : Bool) : Char := if b then '1' else '0'

def dumpAnsi (s : Sgr.Style) : String :=
  dumpColor s.fg ++ ":" ++ dumpColor s.bg ++ ":" ++ String.ofList (Attr.all.map fun a => bit (s.get a))

def parseAnsiField (f : String) : Option Sgr.Style :=
  match f.splitOn ":" with
  | [fg, bg, attrs] =>
    match parseColorField fg, parseColorField bg, attrs.toList with
    | some fg, some bg, [a0, a1, a2, a3, a4, a5, a6, a7] =>
      some { fg := fg, bg := bg, bold := a0 = '1', dimmed := a1 = '1', italic := a2 = '1',
             underline := a3 = '1', blink := a4 = '1', reverse := a5 = '1', hidden := a6 = '1',
             strike := a7 = '1' }
    | _, _, _ => none
  | _ => none

def dumpKind : DecoKind → String
  | .box => "box" | .ul => "ul" | .ol => "ol" | .ulol => "ulol"
  | .boxul => "boxul" | .boxol => "boxol" | .boxulol => "boxulol"

def parseKind : String → Option DecoKind
  | "box" => some .box | "ul" => some .ul | "ol" => some .ol | "ulol" => some .ulol
  | "boxul" => some .boxul | "boxol" => some .boxol | "boxulol" => some .boxulol
  | _ => none

def dumpDeco : Option (DecoKind × Sgr.Style) → String
  | none => "none"
  | some (k, s) => dumpKind k ++ "/" ++ dumpAnsi s

def parseDecoField (f : String) : Option (Option (DecoKind × Sgr.Style)) :=
  if f = "none" then some none
  else match f.splitOn "/" with
    | [k, a] => match parseKind k, parseAnsiField a with
      | some k, some a => some (some (k, a))
      | _, _ => none
    | _ => none

def dumpStyle (s : DStyle) : String :=
  dumpAnsi s.ansi ++ " " ++ String.ofList [bit s.isEmph, bit s.isOmitted, bit s.isRaw, bit s.isSyntax]
    ++ " " ++ dumpDeco s.deco

def parseStyleFields (a fl d : String) : Option DStyle :=
  match parseAnsiField a, fl.toList, parseDecoField d with
  | some a, [e, o, r, s], some d =>
    some { ansi := a, isEmph := e = '1', isOmitted := o = '1', isRaw := r = '1', isSyntax := s = '1', deco := d }
  | _, _, _ => none

def parseDefault (f : String) : Option (Option DStyle) :=
  if f = "-" then some none
  else match f.splitOn "/" with
    | [a, fl] => (parseStyleFields a fl "none").map some
    | _ => none

/-- The oracle table `r,g,b:n;…` as a function (0 where not given). -/
def parseQ (f : String) : Option (Nat → Nat → Nat → Nat) :=
  if f = "-" then some fun _ _ _ => 0
  else do
    let entries ← (f.splitOn ";").mapM fun e =>
      match e.splitOn ":" with
      | [k, v] => match natsOf k ",", v.toNat? with
        | some [r, g, b], some n => some ((r, g, b), n)
        | _, _ => none
      | _ => none
    pure fun r g b => match entries.lookup (r, g, b) with
      | some n => n
      | none => 0

def dumpFatal : Fatal → String
  | .invalidColor w => "FATAL invalid-color " ++ hexOfString w
  | .syntaxAsBackground => "FATAL syntax-as-background"
  | .tooManyColors => "FATAL too-many-colors"
  | .rawInDecoration => "FATAL raw-in-decoration"
  | .syntaxInDecoration => "FATAL syntax-in-decoration"
  | .unreachable => "FATAL unreachable"

def flag (f : String) : Option Bool :=
  if f = "0" then some false else if f = "1" then some true else none

def charsOfField (f : String) : Option (List Char) := (stringOfField f).map String.toList
def hexOfChars (l : List Char) : String := hexOfString (String.ofList l)

/-- rgb triples (alpha not 0/1) among the colour words of a style string. -/
def needs (s : List Char) : List (Nat × Nat × Nat) :=
  (words s).filterMap fun w =>
    match effectOf w with
    | some _ => none
    | none => match resolveColorWord w with
      | some c => if c.a = 0 ∨ c.a = 1 then none else some (c.r, c.g, c.b)
      | none => none

/-- Item list: `<n> item…`, item = `E:x<hex>` | `T:<hex>,<w>;<hex>,<w>;…`. -/
def parseItem (f : String) : Option Line.Item :=
  match f.splitOn ":" with
  | ["E", h] => (charsOfField h).map .esc
  | ["T", body] =>
    if body = "" then some (.text [])
    else do
      let gs ← (body.splitOn ";").mapM fun g =>
        match g.splitOn "," with
        | [h, w] => match charsOfField ("x" ++ h), w.toNat? with
          | some s, some w => some (⟨s, w⟩ : Line.G)
          | _, _ => none
        | _ => none
      pure (.text gs)
  | _ => none

def takeItems (fs : List String) : Option (List Line.Item × List String) :=
  match fs with
  | n :: rest => do
    let n ← n.toNat?
    if rest.length < n then none
    else do
      let items ← (rest.take n).mapM parseItem
      pure (items, rest.drop n)
  | [] => none

def parsePairs : List String → Option (List (Sgr.Style × List Char))
  | [] => some []
  | a :: t :: rest => do
    let a ← parseAnsiField a
    let t ← charsOfField t
    let r ← parsePairs rest
    pure ((a, t) :: r)
  | _ => none

def dumpTColor : Option Term.TColor → String
  | none => "-"
  | some (.idx n) => s!"i{n}"
  | some (.rgb r g b) => s!"r{r},{g},{b}"

def dumpRend (r : Term.Rendition) : String :=
  dumpTColor r.fg ++ ":" ++ dumpTColor r.bg ++ ":" ++
    String.ofList [bit r.bold, bit r.faint, bit r.italic, bit r.underline, bit r.blink, bit r.inverse,
                   bit r.conceal, bit r.crossed]

def dumpLink : Option (List Char) → String
  | none => "-"
  | some u => hexOfChars u

def dumpMode : Term.Mode → String
  | .ground => "ground"
  | .esc => "esc"
  | .csi .. => "csi"
  | .osc _ => "osc"
  | .oscEsc _ => "osc"
  | .str => "str"
  | .strEsc => "str"

/-- Cells grouped into maximal runs of equal (rendition, link). -/
def groupCells : List Term.Cell → List (List Char × Term.Rendition × Option (List Char))
  | [] => []
  | c :: cs =>
    match groupCells cs with
    | (t, r, l) :: rest => if r = c.rend ∧ l = c.link then (c.ch :: t, r, l) :: rest
                           else ([c.ch], c.rend, c.link) :: (t, r, l) :: rest
    | [] => [([c.ch], c.rend, c.link)]

def opt (o : Option String) : String := o.getD "ERR"

def step (line : String) : String :=
  match fields line with
  | "style.needs" :: ss => opt do
    let ss ← ss.mapM charsOfField
    let ts := (ss.flatMap needs).eraseDups
    pure (String.intercalate " " ("ok" :: ts.map fun (r, g, b) => s!"{r},{g},{b}"))
  | ["style.parse", kind, d, tc, s, deco, q] => opt do
    let d ← parseDefault d
    let tc ← flag tc
    let s ← charsOfField s
    let deco ← if deco = "-" then some none else (charsOfField deco).map some
    let q ← parseQ q
    let env : Env := ⟨tc, q⟩
    let render (r : Except Fatal DStyle) : String := match r with
      | .ok st => "ok " ++ dumpStyle st
      | .error e => dumpFatal e
    if kind = "plain" then pure (render (fromStr env d s deco))
    else if kind = "special" then pure (render (fromStrSpecial env d s deco))
    else if kind = "deco" then pure (match parseDeco env s with
      | .ok dd => "ok " ++ dumpDeco dd
      | .error e => dumpFatal e)
    else none
  -- T12: the same requests answered by the table-driven functions of DeltaModel/DecoWords.lean
  --   decowords.parse <special|deco> <default> <tc> <style> <deco | -> <q>      (as style.parse)
  --   decowords.config <color_only 0|1> <key> <tc> <style> <deco | -> <q>       (the style `Config` holds under <key>)
  | ["decowords.parse", kind, d, tc, s, deco, q] => opt do
    let d ← parseDefault d
    let tc ← flag tc
    let s ← charsOfField s
    let deco ← if deco = "-" then some none else (charsOfField deco).map some
    let q ← parseQ q
    let env : Env := ⟨tc, q⟩
    if kind = "special" then pure (match DecoWords.fromStrSpecialT env d s deco with
      | .ok st => "ok " ++ dumpStyle st
      | .error e => dumpFatal e)
    else if kind = "deco" then pure (match DecoWords.parseDecoT env s with
      | .ok dd => "ok " ++ dumpDeco dd
      | .error e => dumpFatal e)
    else none
  | ["decowords.config", co, key, tc, s, deco, q] => opt do
    let co ← flag co
    let key ← stringOfField key
    let tc ← flag tc
    let s ← charsOfField s
    let deco ← if deco = "-" then some none else (charsOfField deco).map some
    let q ← parseQ q
    pure (match DecoWords.configStyleT ⟨tc, q⟩ co key s deco with
      | .ok st => "ok " ++ dumpStyle st
      | .error e => dumpFatal e)
  | ["style.color", tc, w, q] => opt do
    let tc ← flag tc
    let w ← stringOfField w
    let q ← parseQ q
    pure (match parseColor ⟨tc, q⟩ w with
      | .ok c => "ok " ++ dumpColor c
      | .error e => dumpFatal e)
  | ["style.display", a, fl, d] => opt do
    let st ← parseStyleFields a fl d
    pure (match display st with
      | some s => "ok " ++ hexOfChars s
      | none => "PANIC")
  | ["style.paint", a, t] => opt do
    let a ← parseAnsiField a
    let t ← charsOfField t
    pure ("ok " ++ hexOfChars (Sgr.paint a t))
  | "style.paint_strings" :: n :: rest => opt do
    let n ← n.toNat?
    if rest.length ≠ 2 * n then none
    else do
      let xs ← parsePairs rest
      pure ("ok " ++ hexOfChars (Sgr.renderStrings xs))
  | ["style.right_fill", l, a] => opt do
    let l ← charsOfField l
    let a ← parseAnsiField a
    pure ("ok " ++ hexOfChars (Line.rightFill l a))
  | ["style.mark_empty", l, a, m] => opt do
    let l ← charsOfField l
    let a ← parseAnsiField a
    let m ← if m = "-" then some none else (charsOfField m).map some
    pure ("ok " ++ hexOfChars (Line.markEmpty l a m))
  | ["style.link", u, t] => opt do
    let u ← charsOfField u
    let t ← charsOfField t
    pure ("ok " ++ hexOfChars (Line.link u t))
  | "style.truncate" :: w :: rest => opt do
    let w ← w.toNat?
    let (tail, rest) ← takeItems rest
    let (items, rest) ← takeItems rest
    if rest ≠ [] then none
    else pure (match Line.truncate w tail (some ' ') items with
      | some r => "ok " ++ hexOfChars (Line.flatten r) ++ " " ++ toString (Line.width items)
      | none => "PANIC")
  | "style.pad_panel" :: em :: pw :: fm :: fs :: rest => opt do
    let em ← if em = "-" then some none else (parseAnsiField em).map some
    let pw ← pw.toNat?
    let fm ← if fm = "none" then some Line.FillMode.none else if fm = "ansi" then some .ansi
             else if fm = "spaces" then some .spaces else none
    let fs ← parseAnsiField fs
    let (tail, rest) ← takeItems rest
    let (items, rest) ← takeItems rest
    if rest ≠ [] then none
    else pure (match Line.padPanel { emptyMark := em, panelWidth := pw, tail := tail, fillMode := fm, fillStyle := fs } items with
      | some r => "ok " ++ hexOfChars r
      | none => "PANIC")
  | ["style.cr_step", tz, l] => opt do
    let tz ← flag tz
    let l ← charsOfField l
    pure ("ok " ++ hexOfChars (Line.crStep tz l))
  | ["style.term", s] => opt do
    let s ← charsOfField s
    let (st, cells) := Term.run Term.init s
    let groups := (groupCells cells).map fun (t, r, l) => hexOfChars t ++ "/" ++ dumpRend r ++ "/" ++ dumpLink l
    pure (String.intercalate " " (["ok", dumpMode st.mode, dumpRend st.rend, dumpLink st.link] ++ groups))
  | _ => "ERR"

end DrvStyle

/-!
`paint.line` (C09, session 4): one output line of `Painter::paint_lines` from the model `PaintLine.paintedLine`.

  paint.line <minus> <zero> <plus> <minus-non-emph> <plus-non-emph> <null>      (ansi style dumps)
             <keep-markers 0|1> <line-numbers 0|1> <bg-extends 0|1> <available width>
             <state> <homolog 0|1> <empty-line style | -> <bg no|ansi|spaces> <syntax-empty 0|1>
             <k> {<ansi> <piece>}*          the gutter strings; piece = P:<clusters> | L:x<url>:<clusters>
             <n> {<ansi> <clusters>}*       the superimposed sections; clusters = <hex>,<w>;… | -
             <d> {<ansi> x<text>}*          the diff sections
  state as in /repo/src/verif_hooks/style.rs `style.paint_lines`.
  -> ok x<line> <text width> | PANIC | ERR x<why>
-/
namespace DrvPaint
open DrvStyle PaintLine

def parseClusters (f : String) : Option (List Line.G) :=
  if f = "-" || f = "" then some []
  else (f.splitOn ";").mapM fun g =>
    match g.splitOn "," with
    | [h, w] => match charsOfField ("x" ++ h), w.toNat? with
      | some s, some w => some (⟨s, w⟩ : Line.G)
      | _, _ => none
    | _ => none

def parsePiece (f : String) : Option PPiece :=
  match f.splitOn ":" with
  | ["P", c] => (parseClusters c).map .plain
  | ["L", u, c] => do
    let u ← charsOfField u
    let c ← parseClusters c
    pure (.linked u c)
  | _ => none

def parseState (f : String) : Option St :=
  match f with
  | "m" => some (.hunk .minus false none) | "z" => some (.hunk .zero false none) | "p" => some (.hunk .plus false none)
  | "M" => some (.hunk .minus true none) | "Z" => some (.hunk .zero true none) | "P" => some (.hunk .plus true none)
  | "mw" => some (.wrapped .minus) | "zw" => some (.wrapped .zero) | "pw" => some (.wrapped .plus)
  | "b" => some .blame | "u" => some .other
  | _ => match f.splitOn ":" with
    | ["cm", p] => (charsOfField p).map fun p => .hunk .minus false (some p)
    | ["cz", p] => (charsOfField p).map fun p => .hunk .zero false (some p)
    | ["cp", p] => (charsOfField p).map fun p => .hunk .plus false (some p)
    | _ => none

def takeN {α : Type} (item : List String → Option (α × List String)) : Nat → List String → Option (List α × List String)
  | 0, fs => some ([], fs)
  | n + 1, fs => do
    let (x, fs) ← item fs
    let (xs, fs) ← takeN item n fs
    pure (x :: xs, fs)

def takeCounted {α : Type} (item : List String → Option (α × List String)) : List String → Option (List α × List String)
  | n :: fs => n.toNat?.bind fun n => takeN item n fs
  | [] => none

def step (line : String) : String :=
  match fields line with
  | "paint.line" :: a1 :: a2 :: a3 :: a4 :: a5 :: a6 :: keep :: ln :: ext :: avail :: st :: hom :: empty :: bg :: se :: rest =>
    opt do
      let s1 ← parseAnsiField a1
      let s2 ← parseAnsiField a2
      let s3 ← parseAnsiField a3
      let s4 ← parseAnsiField a4
      let s5 ← parseAnsiField a5
      let s6 ← parseAnsiField a6
      let cfg : Cfg := { minusStyle := s1, zeroStyle := s2, plusStyle := s3, minusNonEmph := s4, plusNonEmph := s5,
                         nullStyle := s6, keepMarkers := (← flag keep), lineNumbers := (← flag ln),
                         bgExtends := (← flag ext), availWidth := (← avail.toNat?) }
      let st ← parseState st
      let hom ← flag hom
      let empty ← if empty = "-" then some none else (parseAnsiField empty).map some
      let bg ← if bg = "no" then some BgShouldFill.no else if bg = "ansi" then some (.with_ .ansi)
               else if bg = "spaces" then some (.with_ .spaces) else none
      let se ← flag se
      let (gutter, rest) ← takeCounted (fun fs => match fs with
        | a :: p :: r => do pure ((← parseAnsiField a, ← parsePiece p), r)
        | _ => none) rest
      let (secs, rest) ← takeCounted (fun fs => match fs with
        | a :: c :: r => do pure ((← parseAnsiField a, ← parseClusters c), r)
        | _ => none) rest
      let (diff, rest) ← takeCounted (fun fs => match fs with
        | a :: t :: r => do pure ((← parseAnsiField a, ← charsOfField t), r)
        | _ => none) rest
      if rest ≠ [] then none
      else
        let inp : Input := { st := st, gutter := gutter, syntaxEmpty := se, sections := secs, diffSections := diff,
                             hasHomolog := hom, emptyStyle := empty, bg := bg }
        pure (match paintedLine cfg inp, PaintLine.paintLine cfg inp with
          | .ok out, .ok (strings, _) => "ok " ++ hexOfChars out ++ " " ++ toString (Line.width (lineItems strings))
          | .ok out, _ => "ok " ++ hexOfChars out ++ " ?"
          | .error e, _ => if e.startsWith "panic" then "PANIC" else "ERR " ++ hexOfString e)
  | _ => "ERR"

end DrvPaint

/-!
C09, session 4 (strengthening after seeded change C09-w6-09): `format_blame_metadata` and the blame row
(`DeltaModel/BlameMeta.lean`).
  blamemeta.format <hyperlinks 0|1> <stdout-is-terminal 0|1> <cw: cp:w;cp:w… | -> <commit URL template x<…> | ->
                   <field>×3 (time, author, commit), field = x<plain> <k> {P x<text> | L x<url> x<text>}*
                   <n> {x<prefix> <label|-> <l|c|r|-> <width|-> <precision|-> x<suffix>}*
     -> ok x<metadata> | PANIC | ERR x<why>
  blamemeta.row x<metadata> <metadata ansi> <separator ansi> x<nr_prefix> x<number> x<nr_suffix> <repeat 0|1> <meta width> x<code>
     -> ok x<row> | ERR x<why>
-/
namespace DrvBlameMeta
open DrvStyle BlameMeta

def parseCw (f : String) : Option (Char → Nat) :=
  if f = "-" then some fun _ => 1
  else do
    let pairs ← (f.splitOn ";").mapM fun e => match e.splitOn ":" with
      | [c, w] => match c.toNat?, w.toNat? with
        | some c, some w => some (c, w)
        | _, _ => none
      | _ => none
    pure fun ch => match pairs.find? fun p => p.1 = ch.toNat with
      | some p => p.2
      | none => 1

def takePiece : List String → Option (Line.Piece × List String)
  | "P" :: t :: r => (charsOfField t).map fun t => (.plain t, r)
  | "L" :: u :: t :: r => do pure (.linked (← charsOfField u) (← charsOfField t), r)
  | _ => none

def takeField : List String → Option (FieldVal × List String)
  | p :: rest => do
    let plain ← charsOfField p
    let (ps, rest) ← DrvPaint.takeCounted takePiece rest
    pure (⟨plain, ps⟩, rest)
  | [] => none

def parseAlign (f : String) : Option (Option BlameMeta.Align) :=
  if f = "-" then some none else if f = "l" then some (some .left) else if f = "c" then some (some .center)
  else if f = "r" then some (some .right) else none

def optNat (f : String) : Option (Option Nat) := if f = "-" then some none else f.toNat?.map some

def takeItem : List String → Option (BlameMeta.Item × List String)
  | pre :: lab :: al :: w :: p :: suf :: r => do
    pure ({ pre := ← charsOfField pre, label := if lab = "-" then none else some lab, align := ← parseAlign al,
            width := ← optNat w, prec := ← optNat p, suf := ← charsOfField suf }, r)
  | _ => none

def answer : Except String (List Char) → String
  | .ok out => "ok " ++ hexOfChars out
  | .error e => if e.startsWith "panic" then "PANIC" else "ERR " ++ hexOfString e

def step (line : String) : String :=
  match fields line with
  | "blamemeta.format" :: hl :: tm :: cw :: url :: rest =>
    opt do
      let env : Env := { hyperlinks := ← flag hl, stdoutIsTerminal := ← flag tm }
      let cw ← parseCw cw
      let url ← if url = "-" then some none else (charsOfField url).map some
      let (time, rest) ← takeField rest
      let (author, rest) ← takeField rest
      let (commit, rest) ← takeField rest
      let (items, rest) ← DrvPaint.takeCounted takeItem rest
      if rest ≠ [] then none
      else pure (answer (formatMeta env cw items { time := time, author := author, commit := commit, relink := commitRelink url }))
  | ["blamemeta.row", md, ms, ss, pre, num, suf, rep, mw, code] =>
    opt do
      let r : RowIn := { metaStyle := ← parseAnsiField ms, sepStyle := ← parseAnsiField ss, nrPrefix := ← charsOfField pre,
                         number := ← charsOfField num, nrSuffix := ← charsOfField suf, isRepeat := ← flag rep,
                         metaWidth := ← mw.toNat?, code := ← charsOfField code }
      pure (answer (blameRow (← charsOfField md) r))
  | _ => "ERR"

end DrvBlameMeta

def main : IO Unit := serve fun line =>
  if line.startsWith "paint." then DrvPaint.step line
  else if line.startsWith "blamemeta." then DrvBlameMeta.step line
  else DrvStyle.step line
