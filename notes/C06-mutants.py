#!/usr/bin/env python3
"""C06 mutation run (validation of the check's teeth; results in notes/C06.md section 5).
usage:  python3 notes/C06-mutants.py <mutant|clean>   with a scratch copy of the worktree at
/var/tmp/mut-edits-1 (cp -r /var/tmp/wt-edits /var/tmp/mut-edits-1; rm /var/tmp/mut-edits-1/.git).
Delete the scratch copy and /verif/.build/target-<hash of its path> afterwards."""
import subprocess, sys, os, shutil, re
SRC = "/var/tmp/wt-edits/src"; DST = "/var/tmp/mut-edits-1/src"


def blocks(s):
    m = re.search(r"let candidates = \[\n(.*?)\n                \];", s, re.S)
    cells = re.findall(r"                    Cell \{.*?\n                    \},", m.group(1), re.S)
    assert len(cells) == 3, len(cells)
    return m, cells


def reorder(s, order):
    m, c = blocks(s)
    return s[:m.start(1)] + "\n".join(c[k] for k in order) + s[m.end(1):]


MUTS = {
    "M1-noop-first": ("align.rs", lambda s: reorder(s, [2, 0, 1])),
    "M2-penalty-0": ("align.rs", lambda s: s.replace("const INITIAL_MISMATCH_PENALTY: usize = 1;", "const INITIAL_MISMATCH_PENALTY: usize = 0;")),
    "M3-lt-threshold": ("edits.rs", lambda s: s.replace("|| distance <= max_line_distance\n", "|| distance < max_line_distance\n")),
    "M4-coalesce-minus-only": ("edits.rs", lambda s: s.replace("""                let op = if coalesce_space_with_previous {
                    plus_op_prev
                } else {
                    noop_insertion
                };""", """                let op = noop_insertion;""")),
    "M5-no-leading-empty-token": ("edits.rs", lambda s: s.replace('let mut tokens = vec![""];', 'let mut tokens: Vec<&str> = vec![];')),
    "M6-swap-ins-del": ("align.rs", lambda s: reorder(s, [1, 0, 2])),
    "M7-del-cost-1": ("align.rs", lambda s: s.replace("const DELETION_COST: usize = 2;", "const DELETION_COST: usize = 1;")),
    "M8-rejected-not-emitted": ("edits.rs", lambda s: s.replace("&plus_lines[plus_index..(plus_index + considered)]", "&plus_lines[plus_index..plus_index]")),
    "M9-noop-uses-deletion-tag": ("edits.rs", lambda s: s.replace("""                    } else {
                        noop_deletion
                    },
                    minus_section,""", """                    } else {
                        deletion
                    },
                    minus_section,""")),
}
name = sys.argv[1]
for f in ("align.rs", "edits.rs"):
    shutil.copy(os.path.join(SRC, f), os.path.join(DST, f))
if name != "clean":
    f, fn = MUTS[name]
    p = os.path.join(DST, f); s = open(p).read(); t = fn(s)
    assert t != s, "mutation did not apply"
    open(p, "w").write(t)
env = dict(os.environ, VERIF_REPO="/var/tmp/mut-edits-1")
r = subprocess.run(["./check", "C06", "--tier", "quick"], cwd="/verif", env=env, capture_output=True, text=True)
print("==", name, "rc", r.returncode)
for ln in (r.stdout + r.stderr).splitlines():
    if ln.startswith(("VIOLATION", "[C06]")) or "ERROR" in ln or "Traceback" in ln:
        print(ln[:600])
