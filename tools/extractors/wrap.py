"""Extractor plugin for C07: constants of src/wrapping.rs, src/features/side_by_side.rs,
the wrap defaults of src/cli.rs and the truncation symbol of src/config.rs
-> lean/DeltaModel/Generated/WrapConsts.lean"""
import os, re

def _read(repo, rel):
    return open(os.path.join(repo, rel), encoding="utf-8").read()

def _lean_str(s):
    out = '"'
    for ch in s:
        if ch == "\\": out += "\\\\"
        elif ch == '"': out += '\\"'
        elif ch == "\n": out += "\\n"
        elif ch == "\t": out += "\\t"
        elif ord(ch) < 32 or ord(ch) == 127: out += "\\x%02x" % ord(ch)
        else: out += ch
    return out + '"'

def _need(m, what):
    if not m:
        raise SystemExit("extract: wrap: pattern not found: " + what)
    return m

def _cli_default(cli, long_name):
    m = _need(re.search(r'long\s*=\s*"%s"\s*,\s*default_value\s*=\s*"([^"]*)"' % re.escape(long_name), cli),
              "cli default of --" + long_name)
    return m.group(1)

def gen_wrap_consts(repo):
    wr = _read(repo, "src/wrapping.rs")
    cfg = _read(repo, "src/config.rs")
    cli = _read(repo, "src/cli.rs")
    sbs = _read(repo, "src/features/side_by_side.rs")

    isw = int(_need(re.search(r"pub const INLINE_SYMBOL_WIDTH_1: usize = (\d+);", cfg), "INLINE_SYMBOL_WIDTH_1").group(1))
    spaces = _need(re.search(r'const SPACES: &str = "( *)";', wr), "SPACES literal").group(1)
    permille_mul = int(_need(re.search(r"let current_permille = \([\w.()]+ \* (\d+)\) / [\w.()]+;", wr),
                             "current_permille expression").group(1))
    percent_mul = _need(re.search(r"\(percent \* (\d+)\.0\)\.round\(\) as usize", wr), "percent to permille").group(1)
    # `--wrap-max-lines N` is stored as N + 1 (`+ 1` as pinned, or `.saturating_add(1)`:
    # notes/fix-wrap-max-lines-overflow.diff), unlimited = 0
    _need(re.search(r'if arg == "∞" \|\| arg == "unlimited" \|\| arg\.starts_with\("inf"\) \{\s*0\s*\} else \{\s*arg\.parse::<usize>\(\)\s*\.unwrap_or_else\([^\n]*\)\s*(?:\+ (1)|\.saturating_add\((1)\))\s*\}',
                    wr), "adapt_wrap_max_lines_argument")
    div = int(_need(re.search(r"cli::Width::Fixed\(w\) => w / (\d+),", sbs), "new_sbs panel width").group(1))
    div2 = int(_need(re.search(r"_ => available_terminal_width / (\d+),", sbs), "new_sbs panel width (variable)").group(1))
    if div != div2:
        raise SystemExit("extract: wrap: new_sbs divisors differ")
    odd_inc = int(_need(re.search(r"sbs_data\[super::Right\]\.width \+= (\d+);", sbs), "adapt_sbs_data").group(1))
    _need(re.search(r"matches!\(&width, crate::cli::Width::Fixed\(width\) if width % 2 == 1\)", sbs), "is_odd_with_ansi")
    odd_pad = _need(re.search(r"pub const ODD_PAD_CHAR: char = '(.)';", sbs), "ODD_PAD_CHAR").group(1)
    trunc = _need(re.search(r'truncation_symbol: format!\("\{\}(.*?)\{\}", ansi::ANSI_SGR_REVERSE, ansi::ANSI_SGR_RESET\)', cfg),
                  "truncation_symbol").group(1)
    lsym = _cli_default(cli, "wrap-left-symbol")
    rsym = _cli_default(cli, "wrap-right-symbol")
    m = _need(re.search(r'long = "wrap-right-prefix-symbol",\s*default_value = "([^"]*)"', cli), "wrap-right-prefix-symbol default")
    psym = m.group(1)
    maxl = _cli_default(cli, "wrap-max-lines")
    m = _need(re.search(r'long = "wrap-right-percent",\s*default_value = "([^"]*)"', cli), "wrap-right-percent default")
    pct = m.group(1)
    try:
        permille_default = round(float(pct) * int(percent_mul))
        maxl_n = int(maxl)
    except ValueError:
        raise SystemExit("extract: wrap: non-numeric wrap defaults")

    # --- which of the proposed repairs are present (notes/fix-wrap-*.diff, fix-truncate-after-cut.diff)
    ansi = _read(repo, "src/ansi/mod.rs")
    m = _need(re.search(r"pub fn wrap_line<.*?\n}\n", wr, re.S), "wrap_line body")
    body = m.group(0)
    stuck_stop = bool(re.search(
        r"let first_width = graphemes\.first\(\)\.map_or\(0, \|&\(_, width\)\| width\);\s*"
        r"if max_lines == 0\s*&& curr_line\.line_segments\.is_empty\(\)\s*"
        r"&& \(width_left == 0 \|\| width_left < first_width\)\s*\{\s*"
        r"stack\.push\(\(style, text\)\);\s*break Stop::LineLimit;\s*\}", body))
    sc_plain = "let next_line = if width_left == 0 {" in body
    sc_guarded = "let next_line = if width_left == 0 && first_width > 0 {" in body
    # an unknown shape of this statement counts as "repair not present": the correspondence
    # check then decides whether the behaviour still is the pinned one
    sc_guarded = sc_guarded and not sc_plain
    zwfit = bool(re.search(r"Some\(_\) if stack\.iter\(\)\.all\(\|\(_, text\)\| text\.width\(\) == 0\) => \{\s*"
                           r"curr_line\.push_and_set_len\(\(style, text\), new_len\);\s*false\s*\}", body))
    # the option check: one grapheme AND one column (notes/fix-wrap-wide-symbol.diff)
    m = _need(re.search(r"fn ensure_display_width_1\(.*?\n}\n", wr, re.S), "ensure_display_width_1 body")
    ebody = m.group(0)
    sym_checked = bool(re.search(r"let width = match arg\.grapheme_indices\(true\)\.count\(\) \{\s*INLINE_SYMBOL_WIDTH_1 => arg\.width\(\),\s*"
                                 r"graphemes => graphemes,\s*\};\s*match width \{\s*INLINE_SYMBOL_WIDTH_1 => arg,\s*width => fatal\(", ebody))
    for what in ("wrap-left-symbol", "wrap-right-symbol", "wrap-right-prefix-symbol"):
        if not re.search(r'ensure_display_width_1\(\s*"%s",' % what, wr):
            sym_checked = False
    m = _need(re.search(r"fn truncate_str_impl<.*?\n}\n", ansi, re.S), "truncate_str_impl body")
    tbody = m.group(0)
    tstop = bool(re.search(r"let mut truncated = false;", tbody)) and bool(re.search(r"if truncated \{\s*continue;\s*\}", tbody)) \
        and bool(re.search(r"truncated = true;\s*break;", tbody))
    _need(re.search(r"if used \+ width_of_grapheme > display_width \{", tbody), "truncate_str_impl cut test")
    # the arm for a cluster wider than 2 columns that does not fit: with or without the debug_assert!, then the fallback
    tbn = re.sub(r"\s+", " ", re.sub(r"//.*", "", tbody))
    wide_fallback = "for _ in 0..display_width.saturating_sub(used) { result.push(fillchar); } }"
    wide_head = "if width_of_grapheme == 2 && used < display_width { result.push(fillchar); } else if width_of_grapheme > 2 { "
    if wide_head + wide_fallback in tbn:
        tassert = False
    else:
        _need((wide_head + 'debug_assert!(width_of_grapheme <= 2, "strange grapheme width"); ' + wide_fallback) in tbn or None,
              "truncate_str_impl arm for a cluster wider than 2 columns")
        tassert = True

    out = "-- GENERATED by /verif/tools/extractors/wrap.py from /repo/src — do not edit.\n"
    out += "namespace Generated\n\n"
    out += "/-- `config::INLINE_SYMBOL_WIDTH_1` -/\ndef inlineSymbolWidth1 : Nat := %d\n" % isw
    out += "/-- length of the `SPACES` literal in `wrap_line` -/\ndef spacesLen : Nat := %d\n" % len(spaces)
    out += "/-- factor in `current_permille = (len * F) / line_width` -/\ndef permilleFactor : Nat := %d\n" % permille_mul
    out += "/-- `SideBySideData::new_sbs`: panel width = width / D -/\ndef panelDivisor : Nat := %d\n" % div
    out += "/-- `UseFullPanelWidth::adapt_sbs_data`: right panel += I on odd widths with ANSI fill -/\ndef oddRightIncrement : Nat := %d\n" % odd_inc
    out += "def oddPadChar : String := %s\n" % _lean_str(odd_pad)
    out += "/-- visible text of `config.truncation_symbol` (between SGR reverse and reset) -/\ndef truncationSymbol : String := %s\n" % _lean_str(trunc)
    out += "def defaultWrapLeftSymbol : String := %s\n" % _lean_str(lsym)
    out += "def defaultWrapRightSymbol : String := %s\n" % _lean_str(rsym)
    out += "def defaultWrapRightPrefixSymbol : String := %s\n" % _lean_str(psym)
    out += "/-- default `--wrap-max-lines` as stored in `WrapConfig.max_lines` (argument + 1) -/\ndef defaultMaxLines : Nat := %d\n" % (maxl_n + 1)
    out += "/-- default `--wrap-right-percent` in permille -/\ndef defaultRightPermille : Nat := %d\n" % permille_default
    b = lambda x: "true" if x else "false"
    out += "/-- repairs present in the source (see Wrap.Fixes) -/\n"
    out += "def wrapStuckStop : Bool := %s\n" % b(stuck_stop)
    out += "def wrapZwShortcut : Bool := %s\n" % b(sc_guarded)
    out += "def wrapZwPerfectFit : Bool := %s\n" % b(zwfit)
    out += "/-- `WrapConfig::from_opt` passes all three wrap symbols through a check that accepts exactly one grapheme of display width 1 -/\n"
    out += "def wrapSymbolWidthChecked : Bool := %s\n" % b(sym_checked)
    out += "/-- `truncate_str_impl` stops adding text after the first grapheme that did not fit -/\n"
    out += "def wrapTruncStopsAfterCut : Bool := %s\n" % b(tstop)
    out += ("/-- `truncate_str_impl`, a cluster wider than 2 columns that does not fit (fill character given): the\n"
            "`debug_assert!(width_of_grapheme <= 2)` stands before the fallback `for _ in 0..display_width.saturating_sub(used)\n"
            "{ result.push(fillchar) }` (true: a panic point of the dev profile; false since fix d6cf9d0) -/\n")
    out += "def wrapTruncAssertsWideCluster : Bool := %s\n" % b(tassert)
    out += "\nend Generated\n"
    return out

GENERATORS = [("WrapConsts", gen_wrap_consts)]
