"""Extractor plugin for C03 (termination of the feature gathering): the shape of the two recursive functions of
`src/options/set.rs` that walk the feature graph -> lean/DeltaModel/Generated/FeatureGather.lean

`gather_features_recursively(feature, features, …)` follows the `features = …` lists of `[delta "<feature>"]` sections
of the user's gitconfig, `gather_builtin_features_recursively` those of the builtin features. The graph is the user's
and may contain cycles; what makes the walk finite is *where the membership test stands*: the custom walk pushes the
feature onto the list first and descends into a child only `if !features.contains(&child…)`, the builtin walk returns
at once `if features.contains(&feature_string)`. This plugin reads, for each of the two functions, the sequence of
sites (push onto the list / recursive call / early return / call of the other gatherer) in source order together with
the conditions of the blocks that enclose each site, and classifies every condition as a membership test of the
site's subject (the feature pushed / the first argument of the recursive call) or not. Anything it cannot read stops
the extraction (`SystemExit("extract: …")`).
"""
import os
import re


def _stop(msg):
    raise SystemExit("extract: featuregather: " + msg)


def _body(src, name):
    m = re.search(r"\bfn " + name + r"\s*\(", src)
    if not m:
        _stop(f"fn {name} not found in src/options/set.rs")
    i = src.index("{", src.index(")", m.end()))
    # the parameter list contains no braces; the body starts at the first `{` after the closing parenthesis of the signature
    depth, j = 0, i
    while j < len(src):
        if src[j] == "{":
            depth += 1
        elif src[j] == "}":
            depth -= 1
            if depth == 0:
                return src[i + 1:j]
        j += 1
    _stop(f"unbalanced braces in {name}")


def _strip(code):
    code = re.sub(r"//[^\n]*", "", code)
    return re.sub(r"\s+", " ", code).strip()


def _sites(body, fname):
    """[(kind, subject, [enclosing block headers])] in source order"""
    out, stack, i, stmt_start = [], [], 0, 0
    pat = re.compile(r"features\s*\.\s*push_(?:front|back)\s*\(\s*([^()]*(?:\([^()]*\))?[^()]*)\)|"
                     r"\b(gather_features_recursively|gather_builtin_features_recursively|gather_builtin_features_from_flags_in_gitconfig)\s*\(\s*([^,]+),|"
                     r"\breturn\b")
    while i < len(body):
        ch = body[i]
        if ch == "{":
            stack.append(body[stmt_start:i].strip())
            stmt_start = i + 1
            i += 1
            continue
        if ch == "}":
            if not stack:
                _stop("unbalanced block in " + fname)
            stack.pop()
            stmt_start = i + 1
            i += 1
            continue
        if ch == ";":
            stmt_start = i + 1
            i += 1
            continue
        if ch == '"':                       # string literal (`format!("delta.{feature}.features")`): its braces are not blocks
            i += 1
            while i < len(body) and body[i] != '"':
                i += 2 if body[i] == "\\" else 1
            i += 1
            continue
        m = pat.match(body, i)
        if m and (i == 0 or not (body[i - 1].isalnum() or body[i - 1] == "_")):
            if m.group(0).startswith("return"):
                out.append(("return", "", list(stack)))
            elif m.group(1) is not None:
                out.append(("push", m.group(1).strip(), list(stack)))
            else:
                callee = m.group(2)
                kind = "recurse" if callee == fname else "call:" + callee
                out.append((kind, m.group(3).strip(), list(stack)))
            i = m.end()
            continue
        i += 1
    if stack:
        _stop("unbalanced block in " + fname)
    return out


def _aliases(body):
    """`let x = y.to_string();` makes x another name of y"""
    al = {}
    for a, b in re.findall(r"let (\w+) = (\w+)\.to_string\(\)\s*;", body):
        al[a] = b
    return al


def _canon(expr, al):
    e = expr.strip()
    e = re.sub(r"^&", "", e).strip()
    e = re.sub(r"\.to_string\(\)$|\.to_owned\(\)$|\.into\(\)$", "", e).strip()
    return al.get(e, e)


def _membership(header, subject, al):
    """'absent' if the block runs only when `subject` is not in `features`, 'present' if only when it is, else None.
    `else` branches are not understood as membership tests (they would have to be negated): None."""
    h = header.strip()
    m = re.fullmatch(r"(?:\}?\s*else\s+)?if\s+(!?)\s*features\s*\.\s*contains\s*\(\s*([^()]*(?:\(\))?)\s*\)", h)
    if m and _canon(m.group(2), al) == subject:
        return "absent" if m.group(1) else "present"
    m = re.fullmatch(r"(?:\}?\s*else\s+)?if\s+(!?)\s*features\s*\.\s*iter\(\)\s*\.\s*any\s*\(\s*\|\s*(\w+)\s*\|\s*(?:\*?\2\s*==\s*(.+?)|(.+?)\s*==\s*\*?\2)\s*\)", h)
    if m and _canon(m.group(3) or m.group(4), al) == subject:
        return "absent" if m.group(1) else "present"
    return None


def _lean_str(s):
    return '"' + s.replace("\\", "\\\\").replace('"', '\\"') + '"'


def gen_feature_gather(repo):
    src = open(os.path.join(repo, "src/options/set.rs"), encoding="utf-8").read()
    res = {}
    for fname in ("gather_features_recursively", "gather_builtin_features_recursively"):
        body = _strip(_body(src, fname))
        al = _aliases(body)
        sites = _sites(body, fname)
        rows = []
        for kind, subj, headers in sites:
            s = _canon(subj, al) if kind != "return" else "feature"
            guard = None
            for h in headers:
                g = _membership(h, s, al)
                if g:
                    guard = g
            rows.append((kind, s, guard or "none", headers))
        res[fname] = rows
    cust, built = res["gather_features_recursively"], res["gather_builtin_features_recursively"]
    rec = [r for r in cust if r[0] == "recurse"]
    push = [r for r in cust if r[0] == "push"]
    if not rec:
        _stop("gather_features_recursively has no recursive call: the model of the walk (DeltaModel/FeatureGather.lean) does not apply")
    if len(push) != 1 or push[0][1] != "feature":
        _stop("gather_features_recursively: expected exactly one push of `feature` onto the list, found %r" % [(r[1], r[3]) for r in push])
    kinds = [r[0] for r in cust]
    rec_guarded = all(r[2] == "absent" for r in rec)
    push_guarded = push[0][2] == "absent"
    push_first = kinds.index("push") < kinds.index("recurse")
    # the recursive call sits in a loop over the child features of the section `delta.<feature>.features`
    in_child_loop = all(any(re.match(r"for \w+ in split_feature_string\(", h) for h in r[3]) for r in rec)
    bkinds = [r[0] for r in built]
    b_ret = [k for k, r in enumerate(built) if r[0] == "return"]
    b_push = [k for k, r in enumerate(built) if r[0] == "push"]
    b_rec = [k for k, r in enumerate(built) if r[0] == "recurse"]
    if len(b_push) != 1 or not b_rec:
        _stop("gather_builtin_features_recursively: expected one push and at least one recursive call, found " + repr(bkinds))
    b_early = bool(b_ret) and built[b_ret[0]][2] == "present" and len(built[b_ret[0]][3]) == 1 and b_ret[0] < b_push[0] < b_rec[0]

    def table(rows):
        return "[\n" + ",\n".join(f"   ({_lean_str(k)}, {_lean_str(s)}, {_lean_str(g)}, [{', '.join(_lean_str(h) for h in hs)}])" for k, s, g, hs in rows) + "]"
    b = lambda v: "true" if v else "false"
    out = "-- GENERATED by /verif/tools/extractors/featuregather.py from /repo/src/options/set.rs — do not edit.\n"
    out += "namespace Generated.FeatureGather\n\n"
    out += "/-- Sites of `gather_features_recursively` in source order: (kind, subject, membership guard, enclosing block headers).\n"
    out += "    kind: push = `features.push_front(..)`, recurse = the recursive call, call:<fn> = call of another gatherer, return;\n"
    out += "    subject: the feature pushed / the first argument of the call; guard: \"absent\" = the site is inside a block that runs only\n"
    out += "    when the subject is not yet in `features`, \"present\" = only when it is, \"none\" = no membership test encloses it. -/\n"
    out += "def customSites : List (String × String × String × List String) := " + table(cust) + "\n\n"
    out += "/-- The same for `gather_builtin_features_recursively`. -/\n"
    out += "def builtinSites : List (String × String × String × List String) := " + table(built) + "\n\n"
    out += "/-- every recursive call of `gather_features_recursively` stands inside `if !features.contains(&<its first argument>…)` -/\n"
    out += f"def recursionGuarded : Bool := {b(rec_guarded)}\n"
    out += "/-- … and inside the loop over `split_feature_string(<the section's features value>)` -/\n"
    out += f"def recursionInChildLoop : Bool := {b(in_child_loop)}\n"
    out += "/-- the push of `feature` is itself inside a not-yet-a-member test (false: it is unconditional for custom features) -/\n"
    out += f"def pushGuarded : Bool := {b(push_guarded)}\n"
    out += "/-- the push comes before the first recursive call in source order -/\n"
    out += f"def pushBeforeRecursion : Bool := {b(push_first)}\n"
    out += "/-- `gather_builtin_features_recursively` begins with `if features.contains(&feature_string) { return; }`, before its push\n"
    out += "    and before its recursive calls -/\n"
    out += f"def builtinReturnsEarlyWhenPresent : Bool := {b(b_early)}\n"
    out += "\nend Generated.FeatureGather\n"
    return out


GENERATORS = [("FeatureGather", gen_feature_gather)]
