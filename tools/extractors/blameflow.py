"""Extractor plugin for C17 (git blame): the data flow of `StateMachine::handle_blame_line`
(src/handlers/blame.rs, fields of `StateMachine` in src/delta.rs)
-> lean/DeltaModel/Generated/BlameFlow.lean.

The body of `if let Some(blame) = parse_git_blame_line(..) { .. }` is read statement by statement and
executed symbolically: `let` bindings are inlined, assignments to fields of `self` become register updates
(the value a field has when an expression reads it is the value at that point of the body), `if` conditions
become guards. What the model needs is then written as expressions (`DeltaModel/BlameFlowExpr.lean`) over the
previous key, the key of this line, the parsed line and the registers as they were *before* the line:

  blankFlag    the condition under which `formatted_blame_metadata` is replaced by blanks
  styleFlag    the `is_repeat` argument that reaches `get_color()` through `blame_metadata_style()`
  numberFlag   the `is_repeat` argument of `format_blame_line_number()`
  stateGuard   the condition under which `self.state = State::Blame(key)` is executed
  numNext / strNext   the guarded updates of the `usize` / `Option<String>` fields of `StateMachine` the body
               assigns, with their initial values from `StateMachine::new`
  alwaysN / alwaysB   `let`-bound expressions with checked `usize` arithmetic (evaluated on every line,
               whatever short-circuits later)

A condition that cannot be read becomes an `opaque` atom (the theorems quantify over its value; the model
driver refuses to run such a table), so a *changed* definition of `is_repeat` changes the generated table —
and the theorems of Props/C17 about it — instead of stopping the extraction. The extraction stops only when
one of the three consumers, the key, or the state update cannot be found at all.
"""
import os
import re


def read(repo, rel):
    return open(os.path.join(repo, rel), encoding="utf-8").read()


def strip_tests(src):
    i = src.find("#[cfg(test)]\nmod ")
    return src[:i] if i >= 0 else src


def fail(msg):
    raise SystemExit("extract: blame-flow: " + msg)


def lean_str(s):
    return '"' + s.replace("\\", "\\\\").replace('"', '\\"').replace("\n", "\\n").replace("\t", "\\t") + '"'


# ------------------------------------------------------------------ tokens

TOK = re.compile(r"""
    (?P<ws>\s+|//[^\n]*|/\*.*?\*/)
  | (?P<str>b?r\#"(?:.|\n)*?"\#|b?"(?:[^"\\]|\\.|\\\n)*")
  | (?P<chr>'(?:[^'\\]|\\.[^']*)')
  | (?P<life>'[A-Za-z_]\w*)
  | (?P<int>\d[\d_]*(?:[iu](?:8|16|32|64|128|size))?)
  | (?P<id>[A-Za-z_]\w*(?:::(?:<[^<>]*>|[A-Za-z_]\w*))*(?:!(?=\s*[(\[{]))?)
  | (?P<op>==|!=|<=|>=|&&|\|\||=>|->|::|\.\.=|\.\.|\+=|-=|[-+*/%!&|^<>=.,;:?#@(){}\[\]])
""", re.X | re.S)


def tokens(src):
    out, i = [], 0
    while i < len(src):
        m = TOK.match(src, i)
        if not m:
            fail("cannot tokenise near: " + src[i:i + 40])
        i = m.end()
        k = m.lastgroup
        if k == "ws":
            continue
        out.append((k, m.group(0)))
    return out


SPACED = {"==", "!=", "<=", ">=", "&&", "||", "=>", "=", "<", ">", "+", "-", "+=", "-="}


def text_of(toks):
    s = ""
    prev = None
    for k, v in toks:
        if prev is not None:
            pk, pv = prev
            if (v in SPACED and k == "op") or (pv in SPACED and pk == "op") or pv == "," or \
                    (pk in ("id", "int", "str") and k in ("id", "int", "str")):
                s += " "
        s += v
        prev = (k, v)
    return s


OPEN = {"(": ")", "[": "]", "{": "}"}


def match_close(toks, i):
    """index of the token closing the bracket opened at toks[i]"""
    depth = 0
    for j in range(i, len(toks)):
        v = toks[j][1]
        if toks[j][0] == "op" and v in OPEN:
            depth += 1
        elif toks[j][0] == "op" and v in OPEN.values():
            depth -= 1
            if depth == 0:
                return j
    fail("unbalanced brackets")


# ------------------------------------------------------------------ statements

def split_block(toks):
    """tokens between the braces of a block -> list of statements:
    ("let", pattern tokens, expr tokens) | ("if", cond tokens, then stmts, else stmts | None)
    | ("assign", lhs tokens, rhs tokens) | ("expr", tokens)"""
    out, i = [], 0
    n = len(toks)
    while i < n:
        v = toks[i][1]
        if v == ";":
            i += 1
            continue
        if v == "if":
            st, i = parse_if(toks, i)
            out.append(st)
            continue
        if v in ("match", "for", "while", "loop", "unsafe"):
            j = i
            while j < n and toks[j][1] != "{":
                j = match_close(toks, j) + 1 if toks[j][1] in ("(", "[") else j + 1
            if j >= n:
                fail("block statement without a block")
            e = match_close(toks, j)
            out.append(("expr", toks[i:e + 1]))
            i = e + 1
            continue
        # up to the `;` at depth 0
        j = i
        while j < n and toks[j][1] != ";":
            j = match_close(toks, j) + 1 if (toks[j][0] == "op" and toks[j][1] in OPEN) else j + 1
        st = toks[i:j]
        i = j + 1
        if st[0][1] == "let":
            k = 1
            while k < len(st) and st[k][1] != "=":
                k = match_close(st, k) + 1 if (st[k][0] == "op" and st[k][1] in OPEN) else k + 1
            if k >= len(st):
                out.append(("expr", st))
            else:
                out.append(("let", st[1:k], st[k + 1:]))
            continue
        # assignment `lhs = rhs` (lhs without brackets)
        k = 0
        while k < len(st) and st[k][1] not in ("=", "(", "[", "{"):
            k += 1
        if k < len(st) and st[k][1] == "=":
            out.append(("assign", st[:k], st[k + 1:]))
        else:
            out.append(("expr", st))
    return out


def parse_if(toks, i):
    j = i + 1
    n = len(toks)
    while j < n and toks[j][1] != "{":
        j = match_close(toks, j) + 1 if toks[j][1] in ("(", "[") else j + 1
    if j >= n:
        fail("`if` without a block")
    cond = toks[i + 1:j]
    e = match_close(toks, j)
    then = split_block(toks[j + 1:e])
    i = e + 1
    els = None
    if i < n and toks[i][1] == "else":
        if i + 1 < n and toks[i + 1][1] == "if":
            st, i = parse_if(toks, i + 1)
            els = [st]
        else:
            e2 = match_close(toks, i + 1)
            els = split_block(toks[i + 2:e2])
            i = e2 + 1
    return ("if", cond, then, els), i


# ------------------------------------------------------------------ expressions (a Rust subset)

class NoParse(Exception):
    pass


class P:
    PREC = {"||": 1, "&&": 2, "==": 3, "!=": 3, "<": 3, "<=": 3, ">": 3, ">=": 3, "+": 5, "-": 5}

    def __init__(self, toks):
        self.t, self.i = toks, 0

    def peek(self):
        return self.t[self.i] if self.i < len(self.t) else ("eof", "")

    def next(self):
        tok = self.peek()
        self.i += 1
        return tok

    def expr(self, minp=0):
        left = self.unary()
        while True:
            k, op = self.peek()
            p = self.PREC.get(op) if k == "op" else None
            if p is None or p < minp:
                return left
            self.next()
            left = ("bin", op, left, self.expr(p + 1))

    def unary(self):
        k, v = self.peek()
        if k == "op" and v in ("!", "&", "*"):
            self.next()
            if v == "&" and self.peek()[1] == "mut":
                self.next()
            return ("un", v, self.unary())
        if k == "op" and v == "&&":
            self.next()
            return ("un", "&", ("un", "&", self.unary()))
        return self.postfix()

    def args(self):
        a = []
        self.next()
        while self.peek()[1] != ")":
            if self.peek()[0] == "eof":
                raise NoParse()
            a.append(self.expr())
            if self.peek()[1] == ",":
                self.next()
        self.next()
        return a

    def postfix(self):
        e = self.primary()
        while True:
            v = self.peek()[1]
            if v == "(":
                e = ("call", e, self.args())
            elif v == ".":
                self.next()
                k, name = self.next()
                if k == "int":
                    e = ("field", e, name)
                elif k != "id":
                    raise NoParse()
                elif self.peek()[1] == "(":
                    e = ("method", e, name, self.args())
                else:
                    e = ("field", e, name)
            elif v == "?":
                raise NoParse()
            else:
                return e

    def primary(self):
        k, v = self.next()
        if k == "int":
            return ("int", int(re.sub(r"[iu].*$", "", v).replace("_", "")))
        if k == "id":
            if v.endswith("!"):
                raise NoParse()
            return ("id", v)
        if k in ("str", "chr"):
            return ("lit", v)
        if k == "op" and v == "(":
            e = self.expr()
            if self.next()[1] != ")":
                raise NoParse()
            return e
        raise NoParse()


def parse_expr(toks):
    p = P(toks)
    try:
        e = p.expr()
    except (NoParse, IndexError):
        return None
    return e if p.peek()[0] == "eof" else None


# ------------------------------------------------------------------ lowering to BlameFlow.BoolE / NumE / OptStrE / StrE

class Cannot(Exception):
    pass


TRANSPARENT = {"as_deref", "as_ref", "as_str", "clone", "cloned", "copied", "to_owned", "to_string", "borrow", "as_mut",
               "into", "to_str"}
CMP = {"<": "lt", "<=": "le", "==": "eq", "!=": "ne", ">=": "ge", ">": "gt"}
CHECKED = ("(.add ", "(.sub ")


class Flow:
    def __init__(self, num_fields, str_fields):
        self.num_fields = num_fields        # [(name, init)]
        self.str_fields = str_fields        # [name]
        self.lets = {}                      # name -> (type, lean text)
        self.regs = {}                      # field -> (type, lean text) | ("cond",)  : value *now*, in terms of the old state
        for i, (f, _) in enumerate(num_fields):
            self.regs[f] = ("n", "(.reg %d)" % i)
        for i, f in enumerate(str_fields):
            self.regs[f] = ("o", "(.sreg %d)" % i)
        self.num_upd = {f: [] for f, _ in num_fields}     # field -> [(guard text, value text)] in source order
        self.str_upd = {f: [] for f in str_fields}
        self.opaque = []
        self.always_n, self.always_b = [], []
        self.let_src = {}                   # name -> source text of a `let` that could not be read

    def opaque_atom(self, toks_or_text):
        t = toks_or_text if isinstance(toks_or_text, str) else text_of(toks_or_text)
        if t not in self.opaque:
            self.opaque.append(t)
        return "(.opq %d)" % self.opaque.index(t)

    def src(self, e):
        """source-like text of an AST (for opaque atoms)"""
        k = e[0]
        if k == "id":
            return e[1]
        if k == "int":
            return str(e[1])
        if k == "lit":
            return e[1]
        if k == "un":
            return e[1] + self.src(e[2])
        if k == "bin":
            return "%s %s %s" % (self.src(e[2]), e[1], self.src(e[3]))
        if k == "call":
            return "%s(%s)" % (self.src(e[1]), ", ".join(self.src(a) for a in e[2]))
        if k == "method":
            return "%s.%s(%s)" % (self.src(e[1]), e[2], ", ".join(self.src(a) for a in e[3]))
        if k == "field":
            return "%s.%s" % (self.src(e[1]), e[2])
        return "?"

    def lower(self, e):
        """-> (type, text); type in b n s o. Raises Cannot."""
        k = e[0]
        if k == "un" and e[1] in ("&", "*"):
            return self.lower(e[2])
        if k == "un" and e[1] == "!":
            return ("b", "(.not %s)" % self.lower_b(e[2]))
        if k == "method" and e[2] in TRANSPARENT and not e[3]:
            return self.lower(e[1])
        if k == "int":
            return ("n", "(.lit %d)" % e[1])
        if k == "id":
            v = e[1]
            if v == "true":
                return ("b", ".tt")
            if v == "false":
                return ("b", ".ff")
            if v == "None":
                return ("o", ".none")
            if v in self.lets:
                val = self.lets[v]
                if val is None:
                    raise Cannot()
                return val
            raise Cannot()
        if k == "field":
            r = e[1]
            if r == ("id", "blame"):
                if e[2] == "line_number":
                    return ("n", ".lineNumber")
                if e[2] == "author":
                    return ("s", ".author")
                if e[2] == "commit":
                    return ("s", ".commit")
                raise Cannot()
            if r == ("id", "self") and e[2] in self.regs:
                val = self.regs[e[2]]
                if val[0] == "cond":
                    fail("self.%s is read after it was assigned under a condition in the same call "
                         "(not supported by the translation)" % e[2])
                return val
            raise Cannot()
        if k == "call" and e[1] == ("id", "Some") and len(e[2]) == 1:
            t, x = self.lower(e[2][0])
            if t != "s":
                raise Cannot()
            return ("o", "(.some %s)" % x)
        if k == "method" and e[2] in ("is_some", "is_none") and not e[3]:
            t, x = self.lower(e[1])
            if t != "o":
                raise Cannot()
            return ("b", "(.isSome %s)" % x if e[2] == "is_some" else "(.not (.isSome %s))" % x)
        if k == "method" and e[2] in ("saturating_add", "saturating_sub") and len(e[3]) == 1:
            (ta, a), (tb, b) = self.lower(e[1]), self.lower(e[3][0])
            if ta != "n" or tb != "n":
                raise Cannot()
            return ("n", "(.%s %s %s)" % ("satAdd" if e[2] == "saturating_add" else "satSub", a, b))
        if k == "bin":
            op = e[1]
            if op in ("&&", "||"):
                return ("b", "(.%s %s %s)" % ("and" if op == "&&" else "or", self.lower_b(e[2]), self.lower_b(e[3])))
            (ta, a), (tb, b) = self.lower(e[2]), self.lower(e[3])
            if op in ("+", "-"):
                if ta != "n" or tb != "n":
                    raise Cannot()
                return ("n", "(.%s %s %s)" % ("add" if op == "+" else "sub", a, b))
            if op in CMP:
                if ta == "n" and tb == "n":
                    return ("b", "(.cmp .%s %s %s)" % (CMP[op], a, b))
                if op in ("==", "!="):
                    r = None
                    if ta == "o" and tb == "o":
                        r = "(.optEq %s %s)" % (a, b)
                    elif ta == "s" and tb == "s":
                        r = "(.strEq %s %s)" % (a, b)
                    if r:
                        return ("b", r if op == "==" else "(.not %s)" % r)
            raise Cannot()
        raise Cannot()

    def lower_b(self, e):
        """a boolean: what cannot be read becomes an opaque atom (at the smallest enclosing boolean)"""
        try:
            t, x = self.lower(e)
            if t == "b":
                return x
        except Cannot:
            pass
        if e[0] == "bin" and e[1] in ("&&", "||"):
            return "(.%s %s %s)" % ("and" if e[1] == "&&" else "or", self.lower_b(e[2]), self.lower_b(e[3]))
        if e[0] == "un" and e[1] == "!":
            return "(.not %s)" % self.lower_b(e[2])
        if e[0] == "id" and e[1] in self.let_src:
            return self.opaque_atom("%s = %s" % (e[1], self.let_src[e[1]]))
        return self.opaque_atom(self.src(e))

    def cond(self, toks):
        e = parse_expr(toks)
        return self.opaque_atom(toks) if e is None else self.lower_b(e)


def boolish(e):
    return (e[0] == "bin" and e[1] in ("&&", "||", "==", "!=", "<", "<=", ">", ">=")) or (e[0] == "un" and e[1] == "!") or \
        (e[0] == "method" and (e[2].startswith(("is_", "has_")) or e[2] in ("contains", "starts_with", "ends_with", "eq", "ne")))


def conj(gs):
    gs = [g for g in gs if g != ".tt"]
    if not gs:
        return ".tt"
    out = gs[0]
    for g in gs[1:]:
        out = "(.and %s %s)" % (out, g)
    return out


def disj(a, b):
    if a is None:
        return b
    return "(.or %s %s)" % (a, b)


def find_calls(toks, name):
    """argument token lists of every call `name(..)` / `self.name(..)` in toks"""
    out = []
    for i, (k, v) in enumerate(toks):
        if k == "id" and v == name and i + 1 < len(toks) and toks[i + 1][1] == "(":
            e = match_close(toks, i + 1)
            args, cur, depth = [], [], 0
            for t in toks[i + 2:e]:
                if t[0] == "op" and t[1] in OPEN:
                    depth += 1
                elif t[0] == "op" and t[1] in OPEN.values():
                    depth -= 1
                if t[1] == "," and depth == 0:
                    args.append(cur)
                    cur = []
                else:
                    cur.append(t)
            if cur:
                args.append(cur)
            out.append(args)
    return out


def state_fields(delta_src):
    m = re.search(r"pub struct StateMachine<'a> \{(.*?)\n\}", delta_src, re.S)
    if not m:
        fail("struct StateMachine not found in delta.rs")
    body = re.sub(r"//[^\n]*", "", m.group(1))
    fields = re.findall(r"pub (\w+): ([^,\n]+),", body)
    m2 = re.search(r"pub fn new\(.*?\) -> Self \{\s*Self \{(.*?)\n        \}", delta_src, re.S)
    if not m2:
        fail("StateMachine::new not found in delta.rs")
    inits = dict(re.findall(r"\n\s*(\w+): ([^\n]+?),(?=\n)", "\n" + re.sub(r"//[^\n]*", "", m2.group(1)) + "\n"))
    nums, strs = [], []
    for f, ty in fields:
        ty = ty.strip()
        if ty == "usize":
            init = inits.get(f, "").replace("_", "")
            init = re.sub(r"usize$", "", init)
            if not init.isdigit():
                fail("initial value of StateMachine.%s is not a literal: %r" % (f, inits.get(f)))
            nums.append((f, int(init)))
        elif ty == "Option<String>":
            if inits.get(f) != "None":
                fail("initial value of StateMachine.%s is not None: %r" % (f, inits.get(f)))
            strs.append(f)
    return nums, strs


def toks_eq(toks, text):
    return [v for _, v in toks] == [v for _, v in tokens(text)]


def gen_blame_flow(repo):
    src = strip_tests(read(repo, "src/handlers/blame.rs"))
    delta = read(repo, "src/delta.rs")
    nums, strs = state_fields(delta)
    m = re.search(r"pub fn handle_blame_line\(&mut self\) -> std::io::Result<bool> \{", src)
    if not m:
        fail("fn handle_blame_line not found")
    toks = tokens(src[m.end() - 1:])
    body = toks[1:match_close(toks, 0)]
    # ---- where previous_key comes from
    btxt = "".join(v for _, v in body)
    for need in ["let(previous_key,try_parse)=match&self.state{State::Blame(key)=>(Some(key.clone()),true),"
                 "State::Unknown=>(None,true),_=>(None,false),};",
                 "iftry_parse{"]:
        if need not in btxt:
            fail("handle_blame_line: expected statement not found: " + need)
    # ---- the body of `if let Some(blame) = parse_git_blame_line(..) {`
    start = None
    for i in range(len(body) - 6):
        if [v for _, v in body[i:i + 7]] == ["if", "let", "Some", "(", "blame", ")", "="] and body[i + 7][1] == "parse_git_blame_line":
            start = i
            break
    if start is None:
        fail("`if let Some(blame) = parse_git_blame_line(..)` not found")
    j = start
    while body[j][1] != "{":
        j = match_close(body, j) + 1 if body[j][1] in ("(", "[") else j + 1
    inner = body[j + 1:match_close(body, j)]
    stmts = split_block(inner)

    fl = Flow(nums, strs)
    fl.lets["previous_key"] = ("o", ".prevKey")
    res = dict(blank=None, style=None, number=None, state=None, key=False, is_repeat_src=None)

    def scan_uses(toks_, guards):
        for args in find_calls(toks_, "blame_metadata_style"):
            if len(args) != 3 or not toks_eq(args[0], "&key") or not toks_eq(args[1], "previous_key.as_deref()"):
                fail("blame_metadata_style is no longer called with (&key, previous_key.as_deref(), <flag>)")
            if res["style"] is not None or guards:
                fail("blame_metadata_style is called more than once or under a condition")
            res["style"] = fl.cond(args[2])
        for args in find_calls(toks_, "format_blame_line_number"):
            if len(args) != 3 or not toks_eq(args[0], "&self.config.blame_separator_format") or \
                    not toks_eq(args[1], "blame.line_number"):
                fail("format_blame_line_number is no longer called with (&config.blame_separator_format, "
                     "blame.line_number, <flag>)")
            if res["number"] is not None or guards:
                fail("format_blame_line_number is called more than once or under a condition")
            res["number"] = fl.cond(args[2])

    def run(stmts_, guards):
        for st in stmts_:
            kind = st[0]
            if kind == "let":
                pat, rhs = st[1], st[2]
                scan_uses(rhs, guards)
                names = [v for k, v in pat if k == "id" and v not in ("mut",)]
                if toks_eq(pat, "key"):
                    if not toks_eq(rhs, "formatted_blame_metadata.clone()"):
                        fail("the key is no longer the formatted blame metadata: let key = " + text_of(rhs))
                    res["key"] = True
                    fl.lets["key"] = ("s", ".key")
                    continue
                if toks_eq(pat, "mut formatted_blame_metadata"):
                    fl.lets["formatted_blame_metadata"] = ("s", ".key")
                    continue
                if len(pat) >= 1 and pat[0][1] == "mut":
                    pat = pat[1:]
                if len(pat) == 1 and pat[0][0] == "id":
                    name = pat[0][1]
                    if name == "is_repeat":
                        res["is_repeat_src"] = text_of(rhs)
                    e = parse_expr(rhs)
                    val = None
                    if e is not None:
                        try:
                            val = fl.lower(e)
                        except Cannot:
                            val = None
                    if val is None and e is not None and boolish(e):
                        val = ("b", fl.lower_b(e))      # partly readable: opaque atoms inside
                    if val is None:
                        fl.let_src[name] = text_of(rhs)
                    if guards and val is not None:
                        val = None      # a `let` inside a conditional block is not visible outside anyway
                    fl.lets[name] = val
                    if val is not None and not guards and any(c in val[1] for c in CHECKED):
                        (fl.always_n if val[0] == "n" else fl.always_b).append(val[1])
                else:
                    for nm in names:
                        fl.lets[nm] = None
            elif kind == "assign":
                lhs, rhs = st[1], st[2]
                scan_uses(rhs, guards)
                if toks_eq(lhs, "formatted_blame_metadata"):
                    if not toks_eq(rhs, '" ".repeat(measure_text_width(&formatted_blame_metadata))'):
                        fail("formatted_blame_metadata is assigned something other than blanks of its width: " + text_of(rhs))
                    res["blank"] = disj(res["blank"], conj(guards))
                    fl.lets["formatted_blame_metadata"] = None
                    continue
                if toks_eq(lhs, "self.state"):
                    if not toks_eq(rhs, "State::Blame(key)"):
                        fail("self.state is assigned something other than State::Blame(key): " + text_of(rhs))
                    res["state"] = disj(res["state"], conj(guards))
                    continue
                if len(lhs) == 3 and lhs[0][1] == "self" and lhs[1][1] == "." and lhs[2][1] in fl.regs:
                    f = lhs[2][1]
                    e = parse_expr(rhs)
                    want = "n" if f in fl.num_upd else "o"
                    try:
                        if e is None:
                            raise Cannot()
                        t, x = fl.lower(e)
                        if t != want:
                            raise Cannot()
                    except Cannot:
                        fail("value assigned to self.%s cannot be translated: %s" % (f, text_of(rhs)))
                    g = conj(guards)
                    (fl.num_upd if want == "n" else fl.str_upd)[f].append((g, x))
                    fl.regs[f] = (want, x) if not guards else ("cond",)
                    continue
                if lhs and lhs[0][1] == "self" and len(lhs) >= 3 and lhs[2][1] in ("blame_key_colors",):
                    fail("handle_blame_line assigns self.blame_key_colors itself")
            elif kind == "if":
                cond_t, then, els = st[1], st[2], st[3]
                scan_uses(cond_t, guards)
                relevant = block_relevant(then) or (els is not None and block_relevant(els))
                if not relevant:
                    continue
                g = fl.cond(cond_t)
                run(then, guards + [g])
                if els is not None:
                    run(els, guards + ["(.not %s)" % g])
            else:
                scan_uses(st[1], guards)

    def block_relevant(stmts_):
        for st in stmts_:
            flat = []
            if st[0] == "if":
                if block_relevant(st[2]) or (st[3] is not None and block_relevant(st[3])):
                    return True
                flat = st[1]
            elif st[0] in ("let", "assign"):
                flat = st[1] + st[2]
                if st[0] == "assign" and (toks_eq(st[1], "formatted_blame_metadata") or toks_eq(st[1], "self.state") or
                                          (len(st[1]) == 3 and st[1][0][1] == "self" and st[1][2][1] in fl.regs)):
                    return True
            else:
                flat = st[1]
            names = [v for _, v in flat]
            if "blame_metadata_style" in names or "format_blame_line_number" in names:
                return True
        return False

    run(stmts, [])
    if not res["key"]:
        fail("`let key = formatted_blame_metadata.clone();` not found")
    for what, k in (("the call of blame_metadata_style", "style"), ("the call of format_blame_line_number", "number"),
                    ("`self.state = State::Blame(key);`", "state")):
        if res[k] is None:
            fail(what + " not found in handle_blame_line")
    blank = res["blank"] if res["blank"] is not None else ".ff"

    # ---- blame_metadata_style hands its flag on to get_color
    m = re.search(r"fn blame_metadata_style\(\s*&mut self,\s*(\w+): &str,\s*(\w+): Option<&str>,\s*(\w+): bool,?\s*\) -> Style \{", src)
    if not m:
        fail("signature of blame_metadata_style not recognised")
    pk, pp, pf = m.groups()
    t2 = tokens(src[m.end() - 1:])
    body2 = t2[1:match_close(t2, 0)]
    calls = find_calls(body2, "get_color")
    if len(calls) != 1 or len(calls[0]) != 3 or not toks_eq(calls[0][0], pk) or not toks_eq(calls[0][1], pp):
        fail("blame_metadata_style no longer calls get_color(key, previous_key, <flag>) exactly once")
    fl2 = Flow(nums, strs)
    fl2.opaque = fl.opaque
    fl2.lets = {pk: ("s", ".key"), pp: ("o", ".prevKey"), pf: ("b", res["style"])}
    style = fl2.cond(calls[0][2])
    if not re.search(r"fn get_color\(&self, (\w+): &str, (\w+): Option<&str>, is_repeat: bool\) -> String", src):
        fail("signature of get_color not recognised")

    def upd_list(lst):
        # the last assignment in the source wins: first match in the reversed list
        return "[" + ", ".join("(%s, %s)" % (g, v) for g, v in reversed(lst)) + "]"

    out = "-- GENERATED by /verif/tools/extractors/blameflow.py from /repo/src — do not edit.\n"
    out += "import DeltaModel.BlameFlowExpr\nnamespace Generated.BlameFlow\nopen _root_.BlameFlow\n\n"
    out += "/-- `let is_repeat = …;` as written in `handle_blame_line` (evidence only). -/\n"
    out += "def isRepeatSource : String := " + lean_str(res["is_repeat_src"] or "") + "\n\n"
    out += "/-- `usize` fields of `StateMachine` (name, initial value in `StateMachine::new`): register `i` is entry `i`. -/\n"
    out += "def numRegs : List (String × Nat) := [" + ", ".join("(%s, %d)" % (lean_str(f), v) for f, v in nums) + "]\n"
    out += "/-- `Option<String>` fields of `StateMachine` (initially `None`). -/\n"
    out += "def strRegs : List String := [" + ", ".join(lean_str(f) for f in strs) + "]\n\n"
    out += "/-- Condition under which the metadata column is replaced by blanks. -/\n"
    out += "def blankFlag : BoolE := " + blank + "\n"
    out += "/-- The `is_repeat` that reaches `get_color()` (through `blame_metadata_style()`). -/\n"
    out += "def styleFlag : BoolE := " + style + "\n"
    out += "/-- The `is_repeat` handed to `format_blame_line_number()`. -/\n"
    out += "def numberFlag : BoolE := " + res["number"] + "\n"
    out += "/-- Condition under which `self.state = State::Blame(key)` is executed. -/\n"
    out += "def stateGuard : BoolE := " + res["state"] + "\n\n"
    out += "/-- Updates of the `usize` registers: per register the guarded values, last assignment first\n"
    out += "    (empty: the handler does not assign it). All expressions read the state as it was before the line. -/\n"
    out += "def numNext : List (List (BoolE × NumE)) := [" + ", ".join(upd_list(fl.num_upd[f]) for f, _ in nums) + "]\n"
    out += "def strNext : List (List (BoolE × OptStrE)) := [" + ", ".join(upd_list(fl.str_upd[f]) for f in strs) + "]\n\n"
    out += "/-- `let`-bound expressions with checked `usize` arithmetic: evaluated on every blame line. -/\n"
    out += "def alwaysN : List NumE := [" + ", ".join(fl.always_n) + "]\n"
    out += "def alwaysB : List BoolE := [" + ", ".join(fl.always_b) + "]\n\n"
    out += "/-- Source text of the conditions that could not be translated (`.opq i`). -/\n"
    out += "def opaqueText : List String := [" + ", ".join(lean_str(t) for t in fl.opaque) + "]\n"
    out += "\nend Generated.BlameFlow\n"
    return out


GENERATORS = [("BlameFlow", gen_blame_flow)]
