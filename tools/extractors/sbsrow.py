"""Extractor plugin for C07 (session 4, task T3): how one side-by-side row is put together.

Reads src/features/side_by_side.rs (`get_right_fill_style_for_panel`, `pad_panel_line_to_width`,
`paint_minus_and_plus_lines_side_by_side`, `paint_left_panel_minus_line` / `paint_right_panel_plus_line`,
`paint_minus_or_plus_panel_line`, `paint_zero_lines_side_by_side`, `available_line_width`,
`ansifill::UseFullPanelWidth`), src/paint.rs (`get_should_right_fill_background_color_and_fill_style`,
`paint_line`, `paint_zero_line`, `painted_prefix`), src/features/line_numbers.rs (`formatted_width`,
`from_format_strings`) and src/format.rs (`FormatStringPlaceholderData::width`)
-> lean/DeltaModel/Generated/SbsRow.lean

Every `match` is translated arm by arm, in source order, into a table the model interprets; an arm /
statement / guard of a shape this plugin does not know stops the extraction."""
import os, re


def _read(repo, rel):
    return open(os.path.join(repo, rel), encoding="utf-8").read()


def _stop(what):
    raise SystemExit("extract: sbsrow: " + what)


def _need(m, what):
    if not m:
        _stop("pattern not found: " + what)
    return m


def _lean_str(s):
    out = '"'
    for ch in s:
        if ch == "\\": out += "\\\\"
        elif ch == '"': out += '\\"'
        elif ch == "\n": out += "\\n"
        elif ord(ch) < 32 or ord(ch) == 127: out += "\\x%02x" % ord(ch)
        else: out += ch
    return out + '"'


def _strip_comments(src):
    return re.sub(r"//[^\n]*", "", src)


def _balanced(src, start, open_ch="{", close_ch="}"):
    """src[start] == open_ch; returns the index just after the matching close_ch."""
    assert src[start] == open_ch
    depth, i, n = 0, start, len(src)
    in_str = None
    while i < n:
        c = src[i]
        if in_str:
            if c == "\\":
                i += 2
                continue
            if c == in_str:
                in_str = None
        elif c == '"':
            in_str = '"'
        elif c == "'" and i + 2 < n and (src[i + 2] == "'" or (src[i + 1] == "\\" and src[i + 3] == "'")):
            i += 3 if src[i + 2] == "'" else 4     # char literal
            continue
        elif c == open_ch:
            depth += 1
        elif c == close_ch:
            depth -= 1
            if depth == 0:
                return i + 1
        i += 1
    _stop("unbalanced " + open_ch)


def _fn_body(src, header_re, what):
    m = _need(re.search(header_re, src), "fn " + what)
    i = src.index("{", _balanced(src, src.index("(", m.start()), "(", ")"))
    return src[i + 1:_balanced(src, i) - 1]


def _match_body(src, head_re, what):
    m = _need(re.search(head_re, src), "match " + what)
    i = src.index("{", m.end() - 1)
    return src[i + 1:_balanced(src, i) - 1], m.start()


def _arms(body, what):
    """Top-level arms `pattern [if guard] => expr` of a match body, in order."""
    arms, i, n = [], 0, len(body)
    while True:
        while i < n and body[i] in " \t\r\n,":
            i += 1
        if i >= n:
            break
        # pattern up to the top-level `=>`
        depth, j, in_str = 0, i, None
        while j < n:
            c = body[j]
            if in_str:
                if c == "\\":
                    j += 2
                    continue
                if c == in_str:
                    in_str = None
            elif c == '"':
                in_str = c
            elif c in "([{":
                depth += 1
            elif c in ")]}":
                depth -= 1
            elif depth == 0 and body.startswith("=>", j):
                break
            j += 1
        if j >= n:
            _stop("arm without `=>` in " + what)
        pat = " ".join(body[i:j].split())
        k = j + 2
        while k < n and body[k] in " \t\r\n":
            k += 1
        if k < n and body[k] == "{":
            e = _balanced(body, k)
            expr = body[k:e]
        else:
            depth, e, in_str = 0, k, None
            while e < n:
                c = body[e]
                if in_str:
                    if c == "\\":
                        e += 2
                        continue
                    if c == in_str:
                        in_str = None
                elif c == '"':
                    in_str = c
                elif c in "([{":
                    depth += 1
                elif c in ")]}":
                    depth -= 1
                elif c == "," and depth == 0:
                    break
                e += 1
            expr = body[k:e]
        arms.append((pat, " ".join(expr.split())))
        i = e
    if not arms:
        _stop("no arms in " + what)
    return arms


def _split_guard(pat):
    m = re.match(r"^(.*?) if (.*)$", pat)
    return (m.group(1).strip(), m.group(2).strip()) if m else (pat, None)


def _tuple_items(pat, k, what):
    if not (pat.startswith("(") and pat.endswith(")")):
        _stop(f"{what}: pattern is not a tuple: {pat}")
    items, depth, cur = [], 0, ""
    for c in pat[1:-1]:
        if c in "([{":
            depth += 1
        elif c in ")]}":
            depth -= 1
        if c == "," and depth == 0:
            items.append(cur.strip()); cur = ""
        else:
            cur += c
    if cur.strip():
        items.append(cur.strip())
    if len(items) != k:
        _stop(f"{what}: expected {k} components in {pat}")
    return items


BOOLP = {"true": 1, "false": 0, "_": 99}
SIDEP = {"Left": 1, "Right": 2, "_": 99}
STATEP = {"State::HunkMinus(_, _)": 0, "State::HunkMinusWrapped": 1, "State::HunkZero(_, _)": 2,
          "State::HunkZeroWrapped": 3, "State::HunkPlus(_, _)": 4, "State::HunkPlusWrapped": 5, "_": 99}
# fill results: 0 None | 1 Some(Spaces) | 2 Some(TryAnsiSequence) | 3 none_or_override | 4 bg_fill_mode (computed)
FILLEXPR = {"None": 0, "Some(BgFillMethod::Spaces)": 1, "Some(BgFillMethod::TryAnsiSequence)": 2,
            "none_or_override": 3, "bg_fill_mode": 4}
SIDEGUARD = {None: 99, "panel_side == Left": 1, "panel_side == Right": 2}


def _code(table, key, what):
    if key not in table:
        _stop(f"{what}: unknown shape `{key}`")
    return table[key]


def _fill_result(expr, what):
    m = _need(re.match(r"^\((.+?), (config\.null_style|fill_style)\)$", expr), f"{what}: result `{expr}`")
    return _code(FILLEXPR, m.group(1), what)


def gen_sbs_row(repo):
    sbs = _strip_comments(_read(repo, "src/features/side_by_side.rs"))
    paint = _strip_comments(_read(repo, "src/paint.rs"))
    ln = _strip_comments(_read(repo, "src/features/line_numbers.rs"))
    fmt = _strip_comments(_read(repo, "src/format.rs"))

    # ---- get_right_fill_style_for_panel
    f = _fn_body(sbs, r"\bfn get_right_fill_style_for_panel\b", "get_right_fill_style_for_panel")
    m = _need(re.search(r"let none_or_override = if panel_side == (Left|Right) \{\s*(.+?)\s*\} else \{\s*(.+?)\s*\};", f, re.S),
              "none_or_override")
    ov_side = SIDEP[m.group(1)]
    ov_then = _code(FILLEXPR, " ".join(m.group(2).split()), "none_or_override then")
    ov_else = _code(FILLEXPR, " ".join(m.group(3).split()), "none_or_override else")
    body, _ = _match_body(f, r"match \(line_is_empty, line_index\) \{", "(line_is_empty, line_index)")
    outer = []
    inner = None
    for pat, expr in _arms(body, "get_right_fill_style_for_panel"):
        p, g = _split_guard(pat)
        if g is not None:
            _stop("get_right_fill_style_for_panel: guard on outer arm")
        e, ix = _tuple_items(p, 2, "get_right_fill_style_for_panel")
        ec = _code(BOOLP, e, "line_is_empty pattern")
        ic = _code({"None": 0, "_": 99, "Some(index)": 1, "Some(_)": 1}, ix, "line_index pattern")
        if expr.startswith("{"):
            if inner is not None:
                _stop("get_right_fill_style_for_panel: two computed arms")
            _need(re.search(r"let \(bg_fill_mode, fill_style\) = Painter::get_should_right_fill_background_color_and_fill_style\(\s*"
                            r"&diff_style_sections\[index\],\s*lines_have_homolog\.map\(\|h\| h\[index\]\),\s*state,\s*"
                            r"background_color_extends_to_terminal_width,\s*config,?\s*\);", expr), "call of get_should_right_fill…")
            ib, _ = _match_body(expr, r"match bg_fill_mode \{", "bg_fill_mode (fill style)")
            inner = []
            for ipat, iexpr in _arms(ib, "match bg_fill_mode (fill style)"):
                ip, ig = _split_guard(ipat)
                inner.append((_code({"None": 0, "_": 99}, ip, "bg_fill_mode pattern"),
                              _code(SIDEGUARD, ig, "bg_fill_mode guard"), _fill_result(iexpr, "inner fill result")))
            outer.append((ec, ic, 5))
        else:
            outer.append((ec, ic, _fill_result(expr, "outer fill result")))
    if inner is None:
        _stop("get_right_fill_style_for_panel: no computed arm")

    # ---- get_should_right_fill_background_color_and_fill_style: the final decision
    g = _fn_body(paint, r"\bpub fn get_should_right_fill_background_color_and_fill_style\b", "get_should_right_fill…")
    body, _ = _match_body(g, r"match \(\s*fill_style\.get_background_color\(\)\.is_some\(\),\s*background_color_extends_to_terminal_width,?\s*\) \{",
                          "(has background, should fill)")
    should = []   # (has-bg pattern, should-fill pattern 0 No | 1 With | 99, result 0 None | 1 Some(bgmode) | 2 Some(bgmode) if config flag else None)
    for pat, expr in _arms(body, "get_should_right_fill…"):
        if _split_guard(pat)[1] is not None:
            _stop("get_should_right_fill…: guard")
        if expr == "(None, fill_style)":
            res = 0
        elif expr == "(Some(bgmode), fill_style)":
            res = 1
        elif re.fullmatch(r"\{ if config\.background_color_extends_to_terminal_width \{ \(Some\(bgmode\), fill_style\) \} else \{ \(None, fill_style\) \} \}", expr):
            res = 2
        else:
            _stop("get_should_right_fill…: result `" + expr + "`")
        for alt in [a.strip() for a in pat.split(" | ")]:
            b, s = _tuple_items(alt, 2, "get_should_right_fill…")
            should.append((_code(BOOLP, b, "has-bg pattern"),
                           _code({"_": 99, "BgShouldFill::No": 0, "BgShouldFill::With(bgmode)": 1}, s, "should-fill pattern"), res))

    # ---- pad_panel_line_to_width
    p = _fn_body(sbs, r"\bfn pad_panel_line_to_width\b", "pad_panel_line_to_width")
    mk = _need(re.search(r"if panel_line_is_empty && line_index\.is_some\(\) \{", p), "empty-line marker condition")
    mb, _ = _match_body(p[mk.start():], r"match state \{", "state (marker)")
    marker = []
    for pat, expr in _arms(mb, "empty-line marker"):
        if pat == "_":
            if expr != "unreachable!()":
                _stop("marker: default arm is not unreachable!()")
            continue
        sc = _code(STATEP, pat, "marker state")
        mm = re.fullmatch(r'Painter::mark_empty_line\( &config\.(minus|plus)_empty_line_marker_style, panel_line, Some\("([^"]*)"\), \)', expr)
        if mm:
            marker.append((sc, mm.group(2)))
        elif expr == "{}":
            marker.append((sc, None))
        else:
            _stop("marker: result `" + expr + "`")
    pos = {}
    for key, rx in [("marker", r"if panel_line_is_empty && line_index\.is_some\(\)"),
                    ("measure", r"let text_width = ansi::measure_text_width\(panel_line\);"),
                    ("panelwidth", r"let panel_width = config\.side_by_side_data\[panel_side\]\.width;"),
                    ("truncate", r"if text_width (>=?) panel_width \{\s*\*panel_line =\s*ansi::truncate_str\(panel_line, panel_width, &config\.truncation_symbol\)\.to_string\(\);\s*\}"),
                    ("fillstyle", r"let \(bg_fill_mode, fill_style\) = get_right_fill_style_for_panel\(\s*panel_line_is_empty,\s*line_index,\s*"
                                  r"diff_style_sections,\s*lines_have_homolog,\s*state,\s*panel_side,\s*background_color_extends_to_terminal_width,\s*config,?\s*\);"),
                    ("fill", r"match bg_fill_mode \{")]:
        mm = _need(re.search(rx, p), "pad_panel_line_to_width: " + key)
        pos[key] = mm.start()
        if key == "truncate":
            trunc_strict = mm.group(1) == ">"
    order = sorted(pos, key=lambda k: pos[k])
    if order != ["marker", "measure", "panelwidth", "truncate", "fillstyle", "fill"] and \
       order != ["marker", "panelwidth", "measure", "truncate", "fillstyle", "fill"]:
        _stop("pad_panel_line_to_width: statement order " + " ".join(order))
    fb, _ = _match_body(p[pos["fill"]:], r"match bg_fill_mode \{", "bg_fill_mode (pad)")
    padfill = []   # (mode 0 None | 1 Spaces | 2 TryAnsiSequence, guard 0 none | 1 `>=` | 2 `>`, action 0 nothing | 1 spaces | 2 ansi)
    for pat, expr in _arms(fb, "pad fill"):
        pp, gg = _split_guard(pat)
        mode = _code({"None": 0, "Some(BgFillMethod::Spaces)": 1, "Some(BgFillMethod::TryAnsiSequence)": 2}, pp, "pad fill pattern")
        gc = _code({None: 0, "text_width >= panel_width": 1, "text_width > panel_width": 2}, gg, "pad fill guard")
        if expr == "()":
            act = 0
        elif re.fullmatch(r"\{ Painter::right_fill_background_color\(panel_line, fill_style\) \}", expr):
            act = 2
        elif re.fullmatch(r'panel_line\.push_str\( (?:#\[allow\([\w:]+\)\] )?&fill_style \.paint\(" "\.repeat\(panel_width - text_width\)\) \.to_string\(\), \)', expr):
            act = 1
        else:
            _stop("pad fill action `" + expr + "`")
        padfill.append((mode, gc, act))

    # ---- paint_minus_and_plus_lines_side_by_side
    b = _fn_body(sbs, r"\bpub fn paint_minus_and_plus_lines_side_by_side\b", "paint_minus_and_plus_lines_side_by_side")
    SHOULD = {"BgShouldFill::No": 0, "BgShouldFill::With(BgFillMethod::Spaces)": 1,
              "BgShouldFill::With(BgFillMethod::TryAnsiSequence)": 2, "BgShouldFill::With(config.line_fill_method)": 3}
    mm = _need(re.search(r"let bg_should_fill = LeftRight::new\(\s*(BgShouldFill::[\w:().]+),\s*(BgShouldFill::[\w:().]+),?\s*\);", b),
               "bg_should_fill")
    block_should = (_code(SHOULD, mm.group(1), "bg_should_fill left"), _code(SHOULD, mm.group(2), "bg_should_fill right"))
    nowrap = int(_need(re.search(r"if config\.wrap_config\.max_lines == (\d+) \{\s*\(false, LeftRight::default\(\), LeftRight::default\(\)\)", b),
                       "no-wrap guard").group(1))
    lp = _need(re.search(r"for \(minus_line_index, plus_line_index\) in line_alignment \{", b), "row loop")
    loop = b[lp.end():]
    calls = []
    for name, code in [("paint_left_panel_minus_line", 1), ("paint_right_panel_plus_line", 2)]:
        mm = _need(re.search(r"output_buffer\.push_str\(&%s\(\s*(\w+),\s*&syntax_sections\[(\w+)\],\s*&diff_sections\[(\w+)\],\s*"
                             r"&lines_have_homolog\[(\w+)\],\s*(\w+),\s*&mut Some\(line_numbers_data\),\s*bg_should_fill\[(\w+)\],\s*config,?\s*\)\);" % name,
                             loop), "row loop call of " + name)
        want = ("minus_line_index", "Left", "Left", "Left", "left_state", "Left") if code == 1 else \
               ("plus_line_index", "Right", "Right", "Right", "right_state", "Right")
        if mm.groups() != want:
            _stop(f"{name}: arguments {mm.groups()}")
        calls.append((mm.start(), code))
    nl = _need(re.search(r"output_buffer\.push\('\\n'\);", loop), "row loop newline")
    calls.append((nl.start(), 0))
    row_order = [c for _, c in sorted(calls)]
    # the two wrappers: side handed to paint_minus_or_plus_panel_line and to pad_panel_line_to_width
    sides = []
    for name in ["paint_left_panel_minus_line", "paint_right_panel_plus_line"]:
        w = _fn_body(sbs, r"\bfn %s\b" % name, name)
        m1 = _need(re.search(r"paint_minus_or_plus_panel_line\(\s*line_index,\s*syntax_style_sections,\s*diff_style_sections,\s*state,\s*"
                             r"line_numbers_data,\s*(Left|Right),\s*config,?\s*\)", w), name + ": paint call")
        m2 = _need(re.search(r"pad_panel_line_to_width\(\s*&mut panel_line,\s*panel_line_is_empty,\s*line_index,\s*diff_style_sections,\s*"
                             r"Some\(lines_have_homolog\),\s*state,\s*(Left|Right),\s*background_color_extends_to_terminal_width,\s*config,?\s*\)", w),
                   name + ": pad call")
        if m1.start() > m2.start():
            _stop(name + ": pad before paint")
        sides.append((SIDEP[m1.group(1)], SIDEP[m2.group(1)]))

    # ---- paint_minus_or_plus_panel_line: the marker column
    q = _fn_body(sbs, r"\bfn paint_minus_or_plus_panel_line\b", "paint_minus_or_plus_panel_line")
    pb, _ = _match_body(q, r"let painted_prefix = match \(config\.keep_plus_minus_markers, panel_side, state\) \{", "painted_prefix")
    prefix = []
    for pat, expr in _arms(pb, "painted_prefix"):
        if pat == "_":
            if expr != "None":
                _stop("painted_prefix: default arm")
            prefix.append((99, 99, 99, None))
            continue
        k, s, st = _tuple_items(pat, 3, "painted_prefix")
        mm = _need(re.fullmatch(r'Some\(config\.(minus|plus)_style\.paint\("([^"]*)"\)\)', expr), "painted_prefix result " + expr)
        prefix.append((_code(BOOLP, k, "keep"), _code(SIDEP, s, "side"), _code(STATEP, st, "prefix state"), mm.group(2)))
    _need(re.search(r"Painter::paint_line\(\s*line_syntax_sections,\s*line_diff_sections,\s*&state_for_line_numbers_field,\s*line_numbers_data,\s*"
                    r"Some\(panel_side\),\s*painted_prefix,\s*config,?\s*\)", q), "paint_minus_or_plus_panel_line: paint_line call")
    _need(re.search(r"if let Some\(index\) = line_index \{\s*\(\s*&syntax_style_sections\[index\],\s*&diff_style_sections\[index\],\s*state\.clone\(\),?\s*\)", q),
          "paint_minus_or_plus_panel_line: Some(index) branch")
    _need(re.search(r"\(\s*&empty_line_syntax_sections,\s*&empty_line_diff_sections,\s*opposite_state,?\s*\)", q),
          "paint_minus_or_plus_panel_line: None branch (empty sections)")

    # ---- paint_zero_lines_side_by_side + its caller
    z = _fn_body(sbs, r"\bpub fn paint_zero_lines_side_by_side\b", "paint_zero_lines_side_by_side")
    mm = _need(re.search(r"for panel_side in &\[(Left|Right), (Left|Right)\] \{", z), "zero: panel loop")
    zero_order = [SIDEP[mm.group(1)], SIDEP[mm.group(2)]]
    zl = z[mm.end():]
    m1 = _need(re.search(r"Painter::paint_line\(\s*&syntax_sections,\s*diff_sections,\s*&state,\s*line_numbers_data,\s*Some\(\*panel_side\),\s*"
                         r"painted_prefix\.clone\(\),\s*config,?\s*\)", zl), "zero: paint_line call")
    m2 = _need(re.search(r"pad_panel_line_to_width\(\s*&mut panel_line,\s*panel_line_is_empty,\s*Some\(line_index\),\s*&diff_style_sections,\s*None,\s*"
                         r"&state,\s*\*panel_side,\s*background_color_extends_to_terminal_width,\s*config,?\s*\)", zl), "zero: pad call")
    m3 = _need(re.search(r"output_buffer\.push_str\(&panel_line\);", zl), "zero: push panel")
    m4 = _need(re.search(r"output_buffer\.push\('\\n'\);", zl), "zero: newline")
    if not (m1.start() < m2.start() < m3.start() < m4.start()):
        _stop("zero: statement order")
    pz = _fn_body(paint, r"\bpub fn paint_zero_line\b", "paint_zero_line")
    mm = _need(re.search(r"side_by_side::paint_zero_lines_side_by_side\(\s*&lines\[0\]\.0,\s*syntax_style_sections,\s*diff_style_sections,\s*"
                         r"&mut self\.output_buffer,\s*self\.config,\s*&mut self\.line_numbers_data\.as_mut\(\),\s*painted_prefix\(state, self\.config\),\s*"
                         r"(BgShouldFill::[\w:().]+),?\s*\)", pz), "paint_zero_line: side-by-side call")
    zero_should = _code(SHOULD, mm.group(1), "zero should-fill")
    pp = _fn_body(paint, r"\bfn painted_prefix\b", "painted_prefix (paint.rs)")
    mm = _need(re.search(r'\(HunkZero\(_, _\), true\) => Some\(config\.zero_style\.paint\("([^"]*)"\.to_string\(\)\)\)', pp), "painted_prefix: zero arm")
    zero_prefix = mm.group(1)
    _need(re.search(r"_ => None,", pp), "painted_prefix: default arm")

    # ---- Painter::paint_line: gutter, then (only with a section) the prefix, then the sections
    pl = _fn_body(paint, r"\bpub fn paint_line\b", "paint_line")
    a1 = _need(re.search(r"ansi_strings\.extend\(line_numbers::format_and_paint_line_numbers\(", pl), "paint_line: gutter")
    a2 = _need(re.search(r"for \(section_style, text\) in &superimposed \{", pl), "paint_line: section loop")
    a3 = _need(re.search(r"if !handled_prefix \{\s*if let Some\(painted_prefix\) = painted_prefix\.take\(\) \{\s*ansi_strings\.push\(painted_prefix\)", pl),
               "paint_line: prefix")
    a4 = _need(re.search(r"if !text\.is_empty\(\) \{\s*ansi_strings\.push\(section_style\.paint\(text\.as_str\(\)\)\);", pl), "paint_line: text")
    a5 = _need(re.search(r"let is_empty = syntax_sections\.is_empty\(\);", pl), "paint_line: is_empty")
    if not (a1.start() < a2.start() < a3.start() < a4.start() < a5.start()):
        _stop("paint_line: statement order")

    # ---- available_line_width, formatted_width, FormatStringPlaceholderData::width
    _need(re.search(r"config\.side_by_side_data\[side\]\s*\.width\s*\.saturating_sub\(line_numbers_width\[side\]\)\s*"
                    r"\.saturating_sub\(config\.keep_plus_minus_markers as usize\)", sbs), "available_line_width")
    _need(re.search(r"let line_numbers_width = data\.formatted_width\(\);", sbs), "available_line_width: formatted_width")
    fw = _fn_body(ln, r"\bpub fn formatted_width\b", "formatted_width")
    _need(re.search(r"format_data\s*\.last\(\)\s*\.map\(\|last\| \{\s*let \(prefix_width, suffix_width\) = last\.width\(self\.hunk_max_line_number_width\);\s*"
                    r"format_data\s*\.iter\(\)\s*\.rev\(\)\s*\.skip\(1\)\s*\.map\(\|p\| p\.width\(self\.hunk_max_line_number_width\)\.0\)\s*\.sum::<usize>\(\)\s*"
                    r"\+ prefix_width\s*\+ suffix_width\s*\}\)\s*\.unwrap_or\((\d+)\)", fw), "formatted_width body")
    empty_width = int(re.search(r"\.unwrap_or\((\d+)\)", fw).group(1))
    _need(re.search(r"MinusPlus::new\(\s*format_data_width\(&self\.format_data\[Left\]\),\s*format_data_width\(&self\.format_data\[Right\]\),?\s*\)", fw),
          "formatted_width result")
    wd = _fn_body(fmt, r"\bpub fn width\(&self, hunk_max_line_number_width: usize\)", "FormatStringPlaceholderData::width")
    mm = _need(re.search(r"\(\s*self\.prefix_len\s*\+ std::cmp::max\(\s*self\.placeholder\s*\.as_ref\(\)\s*\.map_or\((\d+), \|_\| hunk_max_line_number_width\),\s*"
                         r"self\.width\.unwrap_or\((\d+)\),?\s*\),\s*self\.suffix_len,?\s*\)", wd), "FormatStringPlaceholderData::width body")
    no_ph, no_width = int(mm.group(1)), int(mm.group(2))

    # ---- ansifill::UseFullPanelWidth
    mm = _need(re.search(r"fn is_odd_with_ansi\(width: &crate::cli::Width, method: &BgFillMethod\) -> bool \{\s*"
                         r"method == &BgFillMethod::(\w+)\s*&& matches!\(&width, crate::cli::Width::Fixed\(width\) if width % (\d+) == (\d+)\)", sbs),
               "is_odd_with_ansi")
    odd_method = _code({"Spaces": 1, "TryAnsiSequence": 2}, mm.group(1), "is_odd_with_ansi method")
    odd_mod, odd_rem = int(mm.group(2)), int(mm.group(3))
    _need(re.search(r"Self\(\s*config\.side_by_side\s*&& Self::is_odd_with_ansi\(&config\.decorations_width, &config\.line_fill_method\),?\s*\)", sbs),
          "UseFullPanelWidth::new")
    mm = _need(re.search(r"format::parse_line_number_format\(\s*&format\[Left\],\s*&LINE_NUMBERS_PLACEHOLDER_REGEX,\s*(\w+),?\s*\),\s*"
                         r"format::parse_line_number_format\(\s*&format\[Right\],\s*&LINE_NUMBERS_PLACEHOLDER_REGEX,\s*(\w+),?\s*\)", ln),
               "from_format_strings")
    PADARG = {"false": False, "insert_center_space_on_odd_width": True}
    pad_left, pad_right = _code(PADARG, mm.group(1), "left format pad"), _code(PADARG, mm.group(2), "right format pad")

    def tup(t):
        return "(" + ", ".join(str(x) for x in t) + ")"

    def lst(l, f=tup):
        return "[" + ", ".join(f(x) for x in l) + "]"

    def optstr(s):
        return "none" if s is None else "some " + _lean_str(s)

    def b(x):
        return "true" if x else "false"

    out = f"""-- GENERATED by /verif/tools/extractors/sbsrow.py from /repo/src — do not edit.
namespace Generated.SbsRow

/-! Codes. Fill result: 0 `None` | 1 `Some(Spaces)` | 2 `Some(TryAnsiSequence)` | 3 `none_or_override` |
4 `bg_fill_mode` (the computed one) | 5 (outer arms only) the computed arm. Side: 1 Left | 2 Right | 99 any.
State: 0 HunkMinus | 1 HunkMinusWrapped | 2 HunkZero | 3 HunkZeroWrapped | 4 HunkPlus | 5 HunkPlusWrapped | 99 any.
Should-fill: 0 `No` | 1 `With(Spaces)` | 2 `With(TryAnsiSequence)` | 3 `With(config.line_fill_method)`. -/

/-- `get_right_fill_style_for_panel`: `none_or_override = if panel_side == <side> {{ <then> }} else {{ <else> }}`. -/
def overrideRule : Nat × Nat × Nat := ({ov_side}, {ov_then}, {ov_else})

/-- `match (line_is_empty, line_index)`: (is_empty 1|0|99, index 1 Some|0 None|99, result); first match wins. -/
def fillOuterArms : List (Nat × Nat × Nat) := {lst(outer)}

/-- the inner `match bg_fill_mode`: (pattern 0 `None` | 99 `_`, guard `panel_side == …` 1|2|99 none, result). -/
def fillInnerArms : List (Nat × Nat × Nat) := {lst(inner)}

/-- `get_should_right_fill_background_color_and_fill_style`, final `match (has background, should fill)`:
(has-bg 1|0|99, should-fill 0 `No` | 1 `With(bgmode)` | 99, result 0 `None` | 1 `Some(bgmode)` |
2 `Some(bgmode)` if `config.background_color_extends_to_terminal_width` else `None`). -/
def shouldFillArms : List (Nat × Nat × Nat) := {lst(should)}

/-- `pad_panel_line_to_width`, empty-line marker (`panel_line_is_empty && line_index.is_some()`):
(state, marker text | none = nothing appended); any other state is `unreachable!()`. -/
def emptyMarkerArms : List (Nat × Option String) := {lst(marker, lambda t: "(" + str(t[0]) + ", " + optstr(t[1]) + ")")}

/-- `if text_width > panel_width {{ truncate_str(panel_line, panel_width, truncation_symbol) }}` (true: `>`, false: `>=`). -/
def truncateGuardStrict : Bool := {b(trunc_strict)}

/-- the final `match bg_fill_mode`: (mode 0 `None` | 1 `Spaces` | 2 `TryAnsiSequence`, guard 0 none |
1 `text_width >= panel_width` | 2 `text_width > panel_width`, action 0 nothing | 1 `panel_width - text_width` spaces |
2 `right_fill_background_color`); first match wins. -/
def padFillArms : List (Nat × Nat × Nat) := {lst(padfill)}

/-- `paint_minus_and_plus_lines_side_by_side`: `bg_should_fill` of the (left, right) panel. -/
def blockShouldFill : Nat × Nat := {tup(block_should)}

/-- … `config.wrap_config.max_lines == N` means: never wrap. -/
def noWrapMaxLines : Nat := {nowrap}

/-- … one iteration of the row loop writes: 1 left panel, 2 right panel, 0 newline — in this order. -/
def rowOrder : List Nat := {lst(row_order, str)}

/-- `paint_left_panel_minus_line` / `paint_right_panel_plus_line`: (side given to the painter, side given to the padding). -/
def panelSides : (Nat × Nat) × (Nat × Nat) := ({tup(sides[0])}, {tup(sides[1])})

/-- `paint_minus_or_plus_panel_line`, marker column: (keep_plus_minus_markers 1|0|99, side, state, text). -/
def prefixArms : List (Nat × Nat × Nat × Option String) := {lst(prefix, lambda t: "(" + ", ".join(str(x) for x in t[:3]) + ", " + optstr(t[3]) + ")")}

/-- `paint_zero_lines_side_by_side`: panels per row, in order; the should-fill its caller passes; the marker column. -/
def zeroPanelOrder : List Nat := {lst(zero_order, str)}
def zeroShouldFill : Nat := {zero_should}
def zeroPrefix : String := {_lean_str(zero_prefix)}

/-- `FormatStringPlaceholderData::width`: `prefix_len + max(placeholder.map_or(A, hunk_max_line_number_width), width.unwrap_or(B))`. -/
def widthNoPlaceholder : Nat := {no_ph}
def widthNoWidth : Nat := {no_width}
/-- `formatted_width` of an empty format. -/
def widthEmptyFormat : Nat := {empty_width}

/-- `UseFullPanelWidth::is_odd_with_ansi`: `method == <m> && Fixed(width) if width % M == R`. -/
def oddRule : Nat × Nat × Nat := ({odd_method}, {odd_mod}, {odd_rem})

/-- `from_format_strings`: which format string gets the `ODD_PAD_CHAR` prefix (left, right). -/
def formatPadSides : Bool × Bool := ({b(pad_left)}, {b(pad_right)})

end Generated.SbsRow
"""
    return out


GENERATORS = [("SbsRow", gen_sbs_row)]
