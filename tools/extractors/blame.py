"""Extractor plugin for C17 (git blame): /repo/src/handlers/blame.rs, cli.rs, color.rs
-> lean/DeltaModel/Generated/Blame.lean.

What is read from the source on every run (a pattern that no longer matches is an error):
  * BLAME_LINE_REGEX: the pattern text, its sha256, the author sub-pattern (classified as
    greedy/two-or-more chars or shortest/one-or-more chars) and the sha256 of the remaining
    "shape" of the pattern (comments and layout removed, author sub-pattern abstracted);
  * the match arms of `get_color` as a table (pattern triple -> action);
  * the two palette index expressions of `get_next_color` (offsets added to `n_keys`);
  * the arithmetic used for the Unicode padding correction in `format_blame_metadata`
    (checked `usize` subtraction vs. add-then-saturating-subtract);
  * default `--blame-format`, `--blame-separator-format`, `--blame-timestamp-format`, `--tabs`
    from cli.rs, the default light/dark blame palettes from color.rs, the default width (15)
    and alignment of a metadata placeholder, default width/alignment of `{n}`.
"""
import hashlib
import os
import re


def read(repo, rel):
    return open(os.path.join(repo, rel), encoding="utf-8").read()


def strip_tests(src):
    i = src.find("#[cfg(test)]\nmod ")
    return src[:i] if i >= 0 else src


def strip_rust_comments(s):
    return re.sub(r"//[^\n]*", "", s)


def norm(s):
    return re.sub(r"\s+", " ", strip_rust_comments(s)).strip()


def lean_str(s):
    out = []
    for ch in s:
        if ch == "\\":
            out.append("\\\\")
        elif ch == '"':
            out.append('\\"')
        elif ch == "\n":
            out.append("\\n")
        elif ch == "\t":
            out.append("\\t")
        else:
            out.append(ch)
    return '"' + "".join(out) + '"'


def lean_chars(s):
    """A `List Char` literal (explicit, so that kernel `decide` never has to unfold `String`)."""
    def one(ch):
        if ch == "'":
            return "'\\''"
        if ch == "\\":
            return "'\\\\'"
        if ch == "\n":
            return "'\\n'"
        if ch == "\t":
            return "'\\t'"
        return "'" + ch + "'"
    return "[" + ", ".join(one(c) for c in s) + "]"


def fail(msg):
    raise SystemExit("extract: blame: " + msg)


AUTHOR_GREEDY2 = r"[^\ ].*[^\ ]"
AUTHOR_LAZY1 = r"[^\ ](?:.*?[^\ ])??"


def regex_parts(src):
    m = re.search(r'static ref BLAME_LINE_REGEX: Regex = Regex::new\(\s*r"(.*?)"\s*\)', src, re.S)
    if not m:
        fail("BLAME_LINE_REGEX not found")
    text = m.group(1)
    # verbose mode: drop comments, then layout whitespace (escaped blanks are kept)
    body = re.sub(r"#[^\n]*", "", text)
    body = body.replace("\\ ", "\\x20")
    body = re.sub(r"\s+", "", body)
    body = body.replace("\\x20", "\\ ")
    if not body.startswith("(?x)"):
        fail("BLAME_LINE_REGEX is no longer in verbose mode")
    # classify the author group: the 2nd capture group
    if "(" + AUTHOR_LAZY1 + ")" in body:
        mode = 1
        shape = body.replace("(" + AUTHOR_LAZY1 + ")", "(<AUTHOR>)", 1)
    elif "(" + AUTHOR_GREEDY2 + ")" in body:
        mode = 0
        shape = body.replace("(" + AUTHOR_GREEDY2 + ")", "(<AUTHOR>)", 1)
    else:
        fail("author sub-pattern of BLAME_LINE_REGEX not recognised: " + body)
    return text, body, mode, shape


PAT_OPT = {"None": 0, "_": 2}
PAT_BOOL = {"false": 0, "true": 1, "_": 2}


def get_color_arms(src):
    m = re.search(r"fn get_color\(.*?\n    \}\n", src, re.S)
    if not m:
        fail("fn get_color not found")
    body = strip_rust_comments(m.group(0))
    m2 = re.search(r"match \(\s*self\.blame_key_colors\.get\(this_key\),\s*previous_key_color,\s*is_repeat,\s*\) \{(.*)\}\s*\}\s*$",
                   body, re.S)
    if not m2:
        fail("the match of get_color is not on (colour of this key, colour of previous key, is_repeat)")
    arms_src = m2.group(1)
    # previous_key_color must be the lookup of the previous key
    if norm("Some(previous_key) => self.blame_key_colors.get(previous_key), None => None,") not in norm(body):
        fail("previous_key_color is no longer blame_key_colors.get(previous_key)")
    arms = []
    pos = 0
    arm_re = re.compile(r"\(\s*([^,()]+(?:\([^)]*\))?)\s*,\s*([^,()]+(?:\([^)]*\))?)\s*,\s*(\w+)\s*\)\s*=>\s*", re.S)
    while True:
        m3 = arm_re.search(arms_src, pos)
        if not m3:
            break
        start = m3.end()
        # body: a block {...} (balanced) or an expression up to the next top-level comma
        if arms_src[start] == "{":
            depth, i = 0, start
            while True:
                if arms_src[i] == "{":
                    depth += 1
                elif arms_src[i] == "}":
                    depth -= 1
                    if depth == 0:
                        break
                i += 1
            b = arms_src[start + 1:i]
            pos = i + 1
        else:
            depth, i = 0, start
            while i < len(arms_src):
                ch = arms_src[i]
                if ch in "([{":
                    depth += 1
                elif ch in ")]}":
                    depth -= 1
                elif ch == "," and depth == 0:
                    break
                i += 1
            b = arms_src[start:i]
            pos = i + 1
        arms.append((m3.group(1).strip(), m3.group(2).strip(), m3.group(3).strip(), norm(b)))
    if len(arms) < 3:
        fail("get_color: fewer than 3 match arms recognised")

    def pat_opt(p, var):
        if p in PAT_OPT:
            return PAT_OPT[p], None
        m4 = re.fullmatch(r"Some\((\w+)\)", p)
        if m4:
            return 1, m4.group(1)
        if re.fullmatch(r"[a-z_]\w*", p):   # a binding: matches anything
            return 2, None
        fail("get_color: pattern not recognised: " + p)

    table = []
    for a, b, c, body_ in arms:
        pa, va = pat_opt(a, "key")
        pb, vb = pat_opt(b, "prev")
        if c not in PAT_BOOL:
            fail("get_color: is_repeat pattern not recognised: " + c)
        pc = PAT_BOOL[c]
        t = body_
        t = re.sub(r"debug_assert!\([^;]*\);\s*", "", t)
        kv, pv = va or "\0", vb or "\0"
        if va and va != "_" and t == f"{kv}.to_owned()":
            act = 0
        elif vb and vb != "_" and t == f"self.get_next_color(Some({pv}))":
            act = 1
        elif t == "self.get_next_color(None)":
            act = 2
        elif (va and vb and
              t == norm(f"if {kv} != {pv} {{ {kv}.to_owned() }} else {{ self.get_next_color(Some({kv})) }}")):
            act = 3
        elif t.startswith("delta_unreachable("):
            act = 4
        else:
            fail("get_color: arm body not recognised: " + body_)
        table.append((pa, pb, pc, act, f"({a}, {b}, {c})"))
    return table


def next_color_offsets(src):
    m = re.search(r"fn get_next_color\(.*?\n    \}\n", src, re.S)
    if not m:
        fail("fn get_next_color not found")
    b = norm(m.group(0))
    want = norm("""
        let n_keys = self.blame_key_colors.len();
        let n_colors = self.config.blame_palette.len();
        let color = self.config.blame_palette[IDX0].clone();
        if Some(color.as_str()) != other_than_color { color } else { self.config.blame_palette[IDX1].clone() }
    """)
    rx = re.escape(want).replace("IDX0", r"(.+?)").replace("IDX1", r"(.+?)")
    m2 = re.search(rx, b)
    if not m2:
        fail("get_next_color: structure not recognised")

    def off(e):
        e = e.replace(" ", "")
        if e == "n_keys%n_colors":
            return 0
        m3 = re.fullmatch(r"\(n_keys\+(\d+)\)%n_colors", e)
        if m3:
            return int(m3.group(1))
        fail("get_next_color: palette index not recognised: " + e)
    return off(m2.group(1)), off(m2.group(2))


def pad_arith(src):
    b = norm(strip_tests(src))
    checked = norm("let unicode_modifier_width = field.as_ref().chars().count() - UnicodeWidthStr::width(field.as_ref());")
    sat = norm("(width + field.as_ref().chars().count()) .saturating_sub(UnicodeWidthStr::width(field.as_ref()))").replace(") .", ").")
    b2 = b.replace(") .", ").")
    if checked in b and "width + unicode_modifier_width," in b:
        return 0
    if sat in b2:
        return 1
    fail("format_blame_metadata: padding arithmetic not recognised")


def handle_blame_shape(src):
    """A few order/shape facts of handle_blame_line the model relies on."""
    b = norm(strip_tests(src))
    for need in [
        "let key = formatted_blame_metadata.clone();",
        # the definition of `is_repeat` and where it flows (blanking, get_color, line number) is no longer
        # pinned here: tools/extractors/blameflow.py translates it into Generated/BlameFlow.lean
        'formatted_blame_metadata = " ".repeat(measure_text_width(&formatted_blame_metadata))',
        "self.blame_key_colors.insert(key.to_owned(), color);",
        "self.state = State::Blame(key);",
        "let width = placeholder.width.unwrap_or(15);",
        "let alignment_spec = placeholder.alignment_spec.unwrap_or(format::Align::Left);",
        "format.width = format.width.or(Some(4));",
        "format.alignment_spec = format.alignment_spec.or(Some(crate::format::Align::Center));",
        "BlameLineNumbers::PerBlock(format) => (format, is_repeat),",
        "BlameLineNumbers::Every(n, format) => (format, is_repeat && line_number % n != 0),",
        "BlameLineNumbers::On(format) => (format, false),",
    ]:
        if need not in b:
            fail("blame.rs: expected statement not found: " + need)


def cli_default(cli, long):
    m = re.search(r'long = "' + re.escape(long) + r'",\s*default_value = "([^"]*)"', cli)
    if not m:
        fail(f"cli.rs: default of --{long} not found")
    return m.group(1)


def palette(color_src, name):
    m = re.search(name + r": &\[&str\] = &\[(.*?)\];", color_src, re.S)
    if not m:
        fail(name + " not found")
    return re.findall(r'"([^"]*)"', m.group(1))


def gen_blame(repo):
    src = read(repo, "src/handlers/blame.rs")
    code = strip_tests(src)
    text, body, mode, shape = regex_parts(code)
    arms = get_color_arms(code)
    o0, o1 = next_color_offsets(code)
    arith = pad_arith(src)
    handle_blame_shape(src)
    cli = read(repo, "src/cli.rs")
    color = read(repo, "src/color.rs")
    light = palette(color, "LIGHT_THEME_BLAME_PALETTE")
    dark = palette(color, "DARK_THEME_BLAME_PALETTE")
    out = "-- GENERATED by /verif/tools/extractors/blame.py from /repo/src — do not edit.\n"
    out += "namespace Generated.Blame\n\n"
    out += "/-- BLAME_LINE_REGEX as written in src/handlers/blame.rs. -/\n"
    out += "def regexText : String :=\n  " + lean_str(text) + "\n\n"
    out += "/-- The pattern with comments/layout removed. -/\n"
    out += "def regexBody : String := " + lean_str(body) + "\n\n"
    out += "/-- sha256 of `regexBody` with the author sub-pattern abstracted (as a number). -/\n"
    out += "def regexShapeSha : Nat := 0x" + hashlib.sha256(shape.encode()).hexdigest() + "\n\n"
    out += "/-- sha256 of `regexText` (evidence only). -/\n"
    out += "def regexTextSha : String := " + lean_str(hashlib.sha256(text.encode()).hexdigest()) + "\n\n"
    out += "/-- Author sub-pattern: 0 = `[^ ].*[^ ]` (greedy, two or more chars),\n"
    out += "    1 = `[^ ](?:.*?[^ ])??` (shortest, one or more chars). -/\n"
    out += f"def authorMode : Nat := {mode}\n\n"
    out += "/-- Match arms of `get_color`, in source order:\n"
    out += "    (colour of this key, colour of previous key, is_repeat, action).\n"
    out += "    Option patterns: 0 = None, 1 = Some(x), 2 = _ ; bool patterns: 0 = false, 1 = true, 2 = _ .\n"
    out += "    Actions: 0 = the key's colour, 1 = next colour other than the previous key's,\n"
    out += "    2 = next colour, 3 = the key's colour unless equal to the previous key's, then the next\n"
    out += "    colour other than it, 4 = delta_unreachable.\n"
    out += "    Source patterns, in order: " + "; ".join(t for *_, t in arms) + " -/\n"
    out += "def getColorArms : List (Nat × Nat × Nat × Nat) :=\n  [" + ",\n   ".join(
        f"({a}, {b}, {c}, {d})" for a, b, c, d, _ in arms) + "]\n\n"
    out += "/-- `get_next_color` tries `palette[(n_keys + fst) % n]`, then `palette[(n_keys + snd) % n]`. -/\n"
    out += f"def nextColorOffsets : Nat × Nat := ({o0}, {o1})\n\n"
    out += "/-- Padding correction in `format_blame_metadata`: 0 = `chars().count() - width(field)` on usize\n"
    out += "    (panics when negative), 1 = `(width + chars().count()).saturating_sub(width(field))`. -/\n"
    out += f"def metaPadArith : Nat := {arith}\n\n"
    out += "def defaultBlameFormat : String := " + lean_str(cli_default(cli, "blame-format")) + "\n"
    out += "def defaultSeparatorFormat : String := " + lean_str(cli_default(cli, "blame-separator-format")) + "\n"
    out += "def defaultTimestampFormat : String := " + lean_str(cli_default(cli, "blame-timestamp-format")) + "\n"
    out += "def defaultTabWidth : Nat := " + str(int(cli_default(cli, "tabs"))) + "\n"
    out += "def defaultMetaWidth : Nat := 15\n"
    out += "def defaultNumberWidth : Nat := 4\n\n"
    out += "def lightPalette : List (List Char) :=\n  [" + ",\n   ".join(lean_chars(c) for c in light) + "]\n"
    out += "def darkPalette : List (List Char) :=\n  [" + ",\n   ".join(lean_chars(c) for c in dark) + "]\n"
    out += "\nend Generated.Blame\n"
    return out


# ---------------------------------------------------------------------------------------------
# Placeholder grammar of --blame-format (src/format.rs make_placeholder_regex /
# parse_line_number_format; also serves --blame-separator-format and --line-numbers-*-format)
# -> lean/DeltaModel/Generated/BlameFormat.lean

def ffail(msg):
    raise SystemExit("extract: blame-format: " + msg)


def squeeze(s):
    return re.sub(r"\s+", "", strip_rust_comments(s))


def class_ranges(body):
    """`A-Za-z_-` -> [(65, 90), (97, 122), (95, 95), (45, 45)] (a regex bracket class without
    escapes; a `-` that is first or last is literal)."""
    out, i = [], 0
    while i < len(body):
        c = body[i]
        if c == "\\" or c == "[" or c == "]":
            ffail("character class with an escape or a nested class: [" + body + "]")
        if i + 2 < len(body) and body[i + 1] == "-":
            lo, hi = ord(c), ord(body[i + 2])
            if lo > hi:
                ffail("descending range in class [" + body + "]")
            out.append((lo, hi))
            i += 3
        else:
            out.append((ord(c), ord(c)))
            i += 1
    return out


def lean_ranges(rs):
    return "[" + ", ".join("(%d, %d)" % r for r in rs) + "]"


def labels_of(src, rx, what):
    m = re.search(rx, src, re.S)
    if not m:
        ffail(what + ": make_placeholder_regex call not found")
    labs = re.findall(r'"([^"]*)"', m.group(1))
    if not labs or any(not re.fullmatch(r"\w+", l) for l in labs):
        ffail(what + ": labels not recognised: " + m.group(1))
    return labs


def gen_blame_format(repo):
    fmt = strip_tests(read(repo, "src/format.rs"))
    blame = strip_tests(read(repo, "src/handlers/blame.rs"))
    ln = strip_tests(read(repo, "src/features/line_numbers.rs"))
    # ---- the pattern text
    m = re.search(r'pub fn make_placeholder_regex\(labels: &\[&str\]\) -> Regex \{\s*Regex::new\(&format!\(\s*r"(.*?)",\s*'
                  r'labels\.join\("\|"\)\s*\)\)\s*\.unwrap\(\)', fmt, re.S)
    if not m:
        ffail("make_placeholder_regex: Regex::new(&format!(r\"...\", labels.join(\"|\"))) not found")
    text = m.group(1)
    body = re.sub(r"#[^\n]*", "", text)
    body = re.sub(r"\s+", "", body)
    if not body.startswith("(?x)"):
        ffail("placeholder regex is no longer in verbose mode")
    # ---- character classes (read wherever they stand; the *structure* is pinned through the text)
    m1 = re.search(r"\(\[\^([^\]]+)\]\)\?\(\[([^\]]+)\]\)", body)
    if not m1:
        ffail("fill / alignment classes `([^..])?([..])` not found in " + body)
    m2 = re.search(r"_\?\(\[([^\]]+)\]\[([^\]]+)\]\*\)", body)
    if not m2:
        ffail("format type `_?([..][..]*)` not found in " + body)
    if body.count("\\d+") != 2:
        ffail("expected exactly two `\\d+` (width, precision) in " + body)
    fill_excl, align_cls = class_ranges(m1.group(1)), class_ranges(m1.group(2))
    type_start, type_rest = class_ranges(m2.group(1)), class_ranges(m2.group(2))
    # ---- Align::try_from
    codes = {"Left": 0, "Center": 1, "Right": 2}
    arms = re.findall(r'Some\("(.)"\) => Ok\(Align::(\w+)\)', fmt)
    if len(arms) < 3 or any(a not in codes for _, a in arms):
        ffail("Align::try_from arms not recognised")
    # ---- which capture group feeds which field (parse_line_number_format)
    m = re.search(r"pub fn parse_line_number_format<'a>\(.*?\n\}\n", fmt, re.S)
    if not m:
        ffail("parse_line_number_format not found")
    plf = squeeze(m.group(0))
    uses = re.findall(r"(\w+):captures\.get\((\d+)\)", plf)
    if sorted(f for f, _ in uses) != ["alignment_spec", "fmt_type", "placeholder", "precision", "width"]:
        ffail("parse_line_number_format: capture uses not recognised: %r" % (uses,))
    for need in ["forcapturesinplaceholder_regex.captures_iter(format_string){",
                 "letmatch_=captures.get(0).unwrap();",
                 "letprefix=SmolStr::new(&format_string[offset..match_.start()]);",
                 "letsuffix=SmolStr::new(&format_string[match_.end()..]);",
                 "offset=match_.end();",
                 "ifoffset==0{",
                 "suffix:SmolStr::new(format_string),"]:
        if need not in plf:
            ffail("parse_line_number_format: expected statement not found: " + need)
    # ---- Placeholder::try_from: labels with a meaning of their own (line numbers), all others Str(label)
    tf = re.findall(r'Some\("(\w+)"\) => Ok\(Placeholder::(\w+)\)', fmt)
    if "Some(placeholder) => Ok(Placeholder::Str(placeholder))" not in fmt:
        ffail("Placeholder::try_from: the Str(label) arm not found")
    # ---- label sets
    blame_labels = labels_of(blame, r"static ref BLAME_PLACEHOLDER_REGEX: Regex =\s*format::make_placeholder_regex\(&\[(.*?)\]\)",
                             "BLAME_PLACEHOLDER_REGEX")
    sep_labels = labels_of(blame, r"pub fn parse_blame_line_numbers\(.*?let regex = make_placeholder_regex\(&\[(.*?)\]\);",
                           "parse_blame_line_numbers")
    ln_labels = labels_of(ln, r"static ref LINE_NUMBERS_PLACEHOLDER_REGEX: Regex =\s*format::make_placeholder_regex\(&\[(.*?)\]\)",
                          "LINE_NUMBERS_PLACEHOLDER_REGEX")
    # ---- format_blame_metadata: which BlameLine field a label shows
    m = re.search(r"pub fn format_blame_metadata\(.*?\n\}\n", blame, re.S)
    if not m:
        ffail("format_blame_metadata not found")
    fbm = m.group(0)
    marms = list(re.finditer(r'Some\(Placeholder::Str\("(\w+)"\)\) =>', fbm))
    if not marms:
        ffail("format_blame_metadata: no Placeholder::Str arms")
    end = fbm.find("None => None", marms[-1].end())
    if end < 0:
        ffail("format_blame_metadata: `None => None` arm not found")
    fields = {"time": 0, "author": 1, "commit": 2}
    shows = []
    for k, a in enumerate(marms):
        seg = fbm[a.end(): marms[k + 1].start() if k + 1 < len(marms) else end]
        used = sorted(set(re.findall(r"\bblame\.(\w+)", seg)))
        if len(used) != 1 or used[0] not in fields:
            ffail("format_blame_metadata: arm %s reads %r" % (a.group(1), used))
        shows.append((a.group(1), fields[used[0]]))
    out = "-- GENERATED by /verif/tools/extractors/blame.py from /repo/src — do not edit.\n"
    out += "namespace Generated.BlameFormat\n\n"
    out += "/-- `make_placeholder_regex` (src/format.rs): the `format!` text with the `(?x)` comments and layout\n"
    out += "    removed (`{{`/`}}` are literal braces, `{}` is the label alternation). -/\n"
    out += "def regexBody : String := " + lean_str(body) + "\n\n"
    out += "/-- sha256 of the pattern as written (evidence only). -/\n"
    out += "def regexTextSha : String := " + lean_str(hashlib.sha256(text.encode()).hexdigest()) + "\n\n"
    out += "/-- Character classes of the pattern as code point ranges. -/\n"
    out += "def fillExcluded : List (Nat × Nat) := " + lean_ranges(fill_excl) + "\n"
    out += "def alignClass : List (Nat × Nat) := " + lean_ranges(align_cls) + "\n"
    out += "def typeStartClass : List (Nat × Nat) := " + lean_ranges(type_start) + "\n"
    out += "def typeRestClass : List (Nat × Nat) := " + lean_ranges(type_rest) + "\n\n"
    out += "/-- `Align::try_from`: code point of the alignment character -> 0 Left | 1 Center | 2 Right. -/\n"
    out += "def alignTable : List (Nat × Nat) := [" + ", ".join("(%d, %d)" % (ord(c), codes[a]) for c, a in arms) + "]\n\n"
    out += "/-- `parse_line_number_format`: (field of FormatStringPlaceholderData, capture group it is read from). -/\n"
    out += "def captureUse : List (String × Nat) := [" + ", ".join(
        "(%s, %s)" % (lean_str(f), g) for f, g in sorted(uses, key=lambda u: int(u[1]))) + "]\n\n"
    out += "/-- Labels handed to `make_placeholder_regex`, in alternation order. -/\n"
    out += "def blameLabels : List (List Char) := [" + ", ".join(lean_chars(l) for l in blame_labels) + "]\n"
    out += "def separatorLabels : List (List Char) := [" + ", ".join(lean_chars(l) for l in sep_labels) + "]\n"
    out += "def lineNumberLabels : List (List Char) := [" + ", ".join(lean_chars(l) for l in ln_labels) + "]\n\n"
    out += "/-- `Placeholder::try_from`: labels with a meaning of their own; every other label is `Str(label)`. -/\n"
    out += "def specialLabels : List (String × String) := [" + ", ".join(
        "(%s, %s)" % (lean_str(a), lean_str(b)) for a, b in tf) + "]\n\n"
    out += "/-- `format_blame_metadata`: label of the arm -> field of the blame line it prints\n"
    out += "    (0 time | 1 author | 2 commit), in source order. -/\n"
    out += "def blameFieldOf : List (List Char × Nat) := [" + ", ".join(
        "(%s, %d)" % (lean_chars(l), c) for l, c in shows) + "]\n"
    out += "\nend Generated.BlameFormat\n"
    return out


GENERATORS = [("Blame", gen_blame), ("BlameFormat", gen_blame_format)]
