"""Extractor plugin for C17 (git blame): /repo/src/handlers/blame.rs, cli.rs, color.rs
-> lean/DeltaModel/Generated/Blame.lean.

What is read from the source on every run (a pattern that no longer matches is an error):
  * BLAME_LINE_REGEX: the pattern text, its sha256, the author sub-pattern (classified as
    greedy/two-or-more chars or shortest/one-or-more chars) and the sha256 of the remaining
    "shape" of the pattern (comments and layout removed, author sub-pattern abstracted);
  * the match arms of `get_color` as a table (pattern triple -> action);
  * the two palette index expressions of `get_next_color` (offsets added to `n_keys`);
  * the arithmetic used for the Unicode padding correction in `format_blame_metadata`
    (checked `usize` subtraction vs. add-then-saturating-subtract);
  * default `--blame-format`, `--blame-separator-format`, `--blame-timestamp-format`, `--tabs`
    from cli.rs, the default light/dark blame palettes from color.rs, the default width (15)
    and alignment of a metadata placeholder, default width/alignment of `{n}`.
"""
import hashlib
import os
import re


def read(repo, rel):
    return open(os.path.join(repo, rel), encoding="utf-8").read()


def strip_tests(src):
    i = src.find("#[cfg(test)]\nmod ")
    return src[:i] if i >= 0 else src


def strip_rust_comments(s):
    return re.sub(r"//[^\n]*", "", s)


def norm(s):
    return re.sub(r"\s+", " ", strip_rust_comments(s)).strip()


def lean_str(s):
    out = []
    for ch in s:
        if ch == "\\":
            out.append("\\\\")
        elif ch == '"':
            out.append('\\"')
        elif ch == "\n":
            out.append("\\n")
        elif ch == "\t":
            out.append("\\t")
        else:
            out.append(ch)
    return '"' + "".join(out) + '"'


def lean_chars(s):
    """A `List Char` literal (explicit, so that kernel `decide` never has to unfold `String`)."""
    def one(ch):
        if ch == "'":
            return "'\\''"
        if ch == "\\":
            return "'\\\\'"
        if ch == "\n":
            return "'\\n'"
        if ch == "\t":
            return "'\\t'"
        return "'" + ch + "'"
    return "[" + ", ".join(one(c) for c in s) + "]"


def fail(msg):
    raise SystemExit("extract: blame: " + msg)


AUTHOR_GREEDY2 = r"[^\ ].*[^\ ]"
AUTHOR_LAZY1 = r"[^\ ](?:.*?[^\ ])??"


def regex_parts(src):
    m = re.search(r'static ref BLAME_LINE_REGEX: Regex = Regex::new\(\s*r"(.*?)"\s*\)', src, re.S)
    if not m:
        fail("BLAME_LINE_REGEX not found")
    text = m.group(1)
    # verbose mode: drop comments, then layout whitespace (escaped blanks are kept)
    body = re.sub(r"#[^\n]*", "", text)
    body = body.replace("\\ ", "\\x20")
    body = re.sub(r"\s+", "", body)
    body = body.replace("\\x20", "\\ ")
    if not body.startswith("(?x)"):
        fail("BLAME_LINE_REGEX is no longer in verbose mode")
    # classify the author group: the 2nd capture group
    if "(" + AUTHOR_LAZY1 + ")" in body:
        mode = 1
        shape = body.replace("(" + AUTHOR_LAZY1 + ")", "(<AUTHOR>)", 1)
    elif "(" + AUTHOR_GREEDY2 + ")" in body:
        mode = 0
        shape = body.replace("(" + AUTHOR_GREEDY2 + ")", "(<AUTHOR>)", 1)
    else:
        fail("author sub-pattern of BLAME_LINE_REGEX not recognised: " + body)
    return text, body, mode, shape


PAT_OPT = {"None": 0, "_": 2}
PAT_BOOL = {"false": 0, "true": 1, "_": 2}


def get_color_arms(src):
    m = re.search(r"fn get_color\(.*?\n    \}\n", src, re.S)
    if not m:
        fail("fn get_color not found")
    body = strip_rust_comments(m.group(0))
    m2 = re.search(r"match \(\s*self\.blame_key_colors\.get\(this_key\),\s*previous_key_color,\s*is_repeat,\s*\) \{(.*)\}\s*\}\s*$",
                   body, re.S)
    if not m2:
        fail("the match of get_color is not on (colour of this key, colour of previous key, is_repeat)")
    arms_src = m2.group(1)
    # previous_key_color must be the lookup of the previous key
    if norm("Some(previous_key) => self.blame_key_colors.get(previous_key), None => None,") not in norm(body):
        fail("previous_key_color is no longer blame_key_colors.get(previous_key)")
    arms = []
    pos = 0
    arm_re = re.compile(r"\(\s*([^,()]+(?:\([^)]*\))?)\s*,\s*([^,()]+(?:\([^)]*\))?)\s*,\s*(\w+)\s*\)\s*=>\s*", re.S)
    while True:
        m3 = arm_re.search(arms_src, pos)
        if not m3:
            break
        start = m3.end()
        # body: a block {...} (balanced) or an expression up to the next top-level comma
        if arms_src[start] == "{":
            depth, i = 0, start
            while True:
                if arms_src[i] == "{":
                    depth += 1
                elif arms_src[i] == "}":
                    depth -= 1
                    if depth == 0:
                        break
                i += 1
            b = arms_src[start + 1:i]
            pos = i + 1
        else:
            depth, i = 0, start
            while i < len(arms_src):
                ch = arms_src[i]
                if ch in "([{":
                    depth += 1
                elif ch in ")]}":
                    depth -= 1
                elif ch == "," and depth == 0:
                    break
                i += 1
            b = arms_src[start:i]
            pos = i + 1
        arms.append((m3.group(1).strip(), m3.group(2).strip(), m3.group(3).strip(), norm(b)))
    if len(arms) < 3:
        fail("get_color: fewer than 3 match arms recognised")

    def pat_opt(p, var):
        if p in PAT_OPT:
            return PAT_OPT[p], None
        m4 = re.fullmatch(r"Some\((\w+)\)", p)
        if m4:
            return 1, m4.group(1)
        if re.fullmatch(r"[a-z_]\w*", p):   # a binding: matches anything
            return 2, None
        fail("get_color: pattern not recognised: " + p)

    table = []
    for a, b, c, body_ in arms:
        pa, va = pat_opt(a, "key")
        pb, vb = pat_opt(b, "prev")
        if c not in PAT_BOOL:
            fail("get_color: is_repeat pattern not recognised: " + c)
        pc = PAT_BOOL[c]
        t = body_
        t = re.sub(r"debug_assert!\([^;]*\);\s*", "", t)
        kv, pv = va or "\0", vb or "\0"
        if va and va != "_" and t == f"{kv}.to_owned()":
            act = 0
        elif vb and vb != "_" and t == f"self.get_next_color(Some({pv}))":
            act = 1
        elif t == "self.get_next_color(None)":
            act = 2
        elif (va and vb and
              t == norm(f"if {kv} != {pv} {{ {kv}.to_owned() }} else {{ self.get_next_color(Some({kv})) }}")):
            act = 3
        elif t.startswith("delta_unreachable("):
            act = 4
        else:
            fail("get_color: arm body not recognised: " + body_)
        table.append((pa, pb, pc, act, f"({a}, {b}, {c})"))
    return table


def next_color_offsets(src):
    m = re.search(r"fn get_next_color\(.*?\n    \}\n", src, re.S)
    if not m:
        fail("fn get_next_color not found")
    b = norm(m.group(0))
    want = norm("""
        let n_keys = self.blame_key_colors.len();
        let n_colors = self.config.blame_palette.len();
        let color = self.config.blame_palette[IDX0].clone();
        if Some(color.as_str()) != other_than_color { color } else { self.config.blame_palette[IDX1].clone() }
    """)
    rx = re.escape(want).replace("IDX0", r"(.+?)").replace("IDX1", r"(.+?)")
    m2 = re.search(rx, b)
    if not m2:
        fail("get_next_color: structure not recognised")

    def off(e):
        e = e.replace(" ", "")
        if e == "n_keys%n_colors":
            return 0
        m3 = re.fullmatch(r"\(n_keys\+(\d+)\)%n_colors", e)
        if m3:
            return int(m3.group(1))
        fail("get_next_color: palette index not recognised: " + e)
    return off(m2.group(1)), off(m2.group(2))


def pad_arith(src):
    b = norm(strip_tests(src))
    checked = norm("let unicode_modifier_width = field.as_ref().chars().count() - UnicodeWidthStr::width(field.as_ref());")
    sat = norm("(width + field.as_ref().chars().count()) .saturating_sub(UnicodeWidthStr::width(field.as_ref()))").replace(") .", ").")
    b2 = b.replace(") .", ").")
    if checked in b and "width + unicode_modifier_width," in b:
        return 0
    if sat in b2:
        return 1
    fail("format_blame_metadata: padding arithmetic not recognised")


def handle_blame_shape(src):
    """A few order/shape facts of handle_blame_line the model relies on."""
    b = norm(strip_tests(src))
    for need in [
        "let key = formatted_blame_metadata.clone();",
        "let is_repeat = previous_key.as_deref() == Some(&key);",
        'formatted_blame_metadata = " ".repeat(measure_text_width(&formatted_blame_metadata))',
        "self.blame_key_colors.insert(key.to_owned(), color);",
        "self.state = State::Blame(key);",
        "let width = placeholder.width.unwrap_or(15);",
        "let alignment_spec = placeholder.alignment_spec.unwrap_or(format::Align::Left);",
        "format.width = format.width.or(Some(4));",
        "format.alignment_spec = format.alignment_spec.or(Some(crate::format::Align::Center));",
        "BlameLineNumbers::PerBlock(format) => (format, is_repeat),",
        "BlameLineNumbers::Every(n, format) => (format, is_repeat && line_number % n != 0),",
        "BlameLineNumbers::On(format) => (format, false),",
    ]:
        if need not in b:
            fail("blame.rs: expected statement not found: " + need)


def cli_default(cli, long):
    m = re.search(r'long = "' + re.escape(long) + r'",\s*default_value = "([^"]*)"', cli)
    if not m:
        fail(f"cli.rs: default of --{long} not found")
    return m.group(1)


def palette(color_src, name):
    m = re.search(name + r": &\[&str\] = &\[(.*?)\];", color_src, re.S)
    if not m:
        fail(name + " not found")
    return re.findall(r'"([^"]*)"', m.group(1))


def gen_blame(repo):
    src = read(repo, "src/handlers/blame.rs")
    code = strip_tests(src)
    text, body, mode, shape = regex_parts(code)
    arms = get_color_arms(code)
    o0, o1 = next_color_offsets(code)
    arith = pad_arith(src)
    handle_blame_shape(src)
    cli = read(repo, "src/cli.rs")
    color = read(repo, "src/color.rs")
    light = palette(color, "LIGHT_THEME_BLAME_PALETTE")
    dark = palette(color, "DARK_THEME_BLAME_PALETTE")
    out = "-- GENERATED by /verif/tools/extractors/blame.py from /repo/src — do not edit.\n"
    out += "namespace Generated.Blame\n\n"
    out += "/-- BLAME_LINE_REGEX as written in src/handlers/blame.rs. -/\n"
    out += "def regexText : String :=\n  " + lean_str(text) + "\n\n"
    out += "/-- The pattern with comments/layout removed. -/\n"
    out += "def regexBody : String := " + lean_str(body) + "\n\n"
    out += "/-- sha256 of `regexBody` with the author sub-pattern abstracted (as a number). -/\n"
    out += "def regexShapeSha : Nat := 0x" + hashlib.sha256(shape.encode()).hexdigest() + "\n\n"
    out += "/-- sha256 of `regexText` (evidence only). -/\n"
    out += "def regexTextSha : String := " + lean_str(hashlib.sha256(text.encode()).hexdigest()) + "\n\n"
    out += "/-- Author sub-pattern: 0 = `[^ ].*[^ ]` (greedy, two or more chars),\n"
    out += "    1 = `[^ ](?:.*?[^ ])??` (shortest, one or more chars). -/\n"
    out += f"def authorMode : Nat := {mode}\n\n"
    out += "/-- Match arms of `get_color`, in source order:\n"
    out += "    (colour of this key, colour of previous key, is_repeat, action).\n"
    out += "    Option patterns: 0 = None, 1 = Some(x), 2 = _ ; bool patterns: 0 = false, 1 = true, 2 = _ .\n"
    out += "    Actions: 0 = the key's colour, 1 = next colour other than the previous key's,\n"
    out += "    2 = next colour, 3 = the key's colour unless equal to the previous key's, then the next\n"
    out += "    colour other than it, 4 = delta_unreachable.\n"
    out += "    Source patterns, in order: " + "; ".join(t for *_, t in arms) + " -/\n"
    out += "def getColorArms : List (Nat × Nat × Nat × Nat) :=\n  [" + ",\n   ".join(
        f"({a}, {b}, {c}, {d})" for a, b, c, d, _ in arms) + "]\n\n"
    out += "/-- `get_next_color` tries `palette[(n_keys + fst) % n]`, then `palette[(n_keys + snd) % n]`. -/\n"
    out += f"def nextColorOffsets : Nat × Nat := ({o0}, {o1})\n\n"
    out += "/-- Padding correction in `format_blame_metadata`: 0 = `chars().count() - width(field)` on usize\n"
    out += "    (panics when negative), 1 = `(width + chars().count()).saturating_sub(width(field))`. -/\n"
    out += f"def metaPadArith : Nat := {arith}\n\n"
    out += "def defaultBlameFormat : String := " + lean_str(cli_default(cli, "blame-format")) + "\n"
    out += "def defaultSeparatorFormat : String := " + lean_str(cli_default(cli, "blame-separator-format")) + "\n"
    out += "def defaultTimestampFormat : String := " + lean_str(cli_default(cli, "blame-timestamp-format")) + "\n"
    out += "def defaultTabWidth : Nat := " + str(int(cli_default(cli, "tabs"))) + "\n"
    out += "def defaultMetaWidth : Nat := 15\n"
    out += "def defaultNumberWidth : Nat := 4\n\n"
    out += "def lightPalette : List (List Char) :=\n  [" + ",\n   ".join(lean_chars(c) for c in light) + "]\n"
    out += "def darkPalette : List (List Char) :=\n  [" + ",\n   ".join(lean_chars(c) for c in dark) + "]\n"
    out += "\nend Generated.Blame\n"
    return out


GENERATORS = [("Blame", gen_blame)]
