"""Extractor plugin for C07: `WrapConfig::config_max_line_length` (src/wrapping.rs), its call in
`Config::from` (src/config.rs) and `adapt_wrap_max_lines_argument`
-> lean/DeltaModel/Generated/WrapMaxLineLength.lean

The body of `config_max_line_length` is *translated*: a small parser for the Rust subset the function is
written in (one `match` on an expression or a tuple of expressions; arms with integer / `_` / binding /
tuple patterns and optional `if` guards; blocks of `let` statements, one-parameter closures (parameter typed
`: usize` or not), calls, `std::cmp::max/min`, `.max()/.min()`, `.saturating_add/_mul/_sub()`, `+ * /`,
comparisons) produces a Lean `if … then … else …` chain with the arms in source order (first match wins, as in
Rust). Anything outside the subset stops the extraction (`SystemExit("extract: …")`), which the check reports
as a broken tie.

Two definitions are produced from the same syntax tree:
* `configMaxLineLength … : Nat` — `usize` as `Nat`: plain `+ * /` are the `Nat` operations (equal to the Rust
  ones as long as no intermediate value exceeds `usize::MAX`), `a.saturating_add(b)` is
  `Usize.satAdd a b = min (a + b) usizeMax`, likewise `satMul`, `satSub`;
* `configMaxLineLengthChecked … : Option Nat` — the same arms with the arithmetic of a build with overflow
  checks (the dev profile): every plain `+ *` is `none` (= panic) when the result exceeds `usize::MAX`, `/ %`
  when the divisor is 0; saturating operations, `max`, `min` always return. `let`s and calls are strict
  (`Option.bind`), as in Rust. With it the proviso of the first definition is a theorem
  (`Props/C07.lean: max_line_length_nat_model_faithful`, `max_line_length_total`).
"""
import os
import re


def _read(repo, rel):
    return open(os.path.join(repo, rel), encoding="utf-8").read()


def _stop(msg):
    raise SystemExit("extract: wrap_maxlen: " + msg)


def _camel(name):
    parts = [p for p in name.split("_") if p]
    if not parts:
        return "x_"
    out = parts[0] + "".join(p[:1].upper() + p[1:] for p in parts[1:])
    if out in ("max", "min", "fun", "let", "if", "then", "else", "match", "with", "at", "from", "by", "end", "in"):
        out += "_"
    return out


# ------------------------------------------------------------------ tokens

_TOK = re.compile(r"""
    (?P<ws>\s+|//[^\n]*)
  | (?P<int>\d[\d_]*(?:usize|u64|u32)?)
  | (?P<id>[A-Za-z_][A-Za-z0-9_]*(?:::[A-Za-z_][A-Za-z0-9_]*)*)
  | (?P<op>=>|==|!=|<=|>=|&&|\|\||[-+*/%(){},;|=<>!.&:])
""", re.X)


def _tokens(src):
    out, i = [], 0
    while i < len(src):
        m = _TOK.match(src, i)
        if not m:
            _stop("cannot tokenize config_max_line_length at %r" % src[i:i + 30])
        i = m.end()
        if m.lastgroup == "ws":
            continue
        out.append((m.lastgroup, m.group(m.lastgroup)))
    return out


# ------------------------------------------------------------------ parser (AST = nested tuples)

class _P:
    def __init__(self, toks):
        self.t, self.i = toks, 0

    def peek(self, k=0):
        return self.t[self.i + k] if self.i + k < len(self.t) else ("eof", "")

    def next(self):
        tok = self.peek()
        self.i += 1
        return tok

    def eat(self, val):
        if self.peek()[1] != val:
            _stop("expected %r, found %r (token %d)" % (val, self.peek()[1], self.i))
        self.i += 1

    def at(self, val):
        return self.peek()[1] == val

    # block := '{' ('let' ident '=' expr ';')* expr '}'
    def block(self):
        self.eat("{")
        lets = []
        while self.at("let"):
            self.next()
            kind, name = self.next()
            if kind != "id" or "::" in name:
                _stop("unsupported let pattern %r" % name)
            if self.at(":"):
                self.next()
                tk, ty = self.next()
                if tk != "id" or ty != "usize":
                    _stop("let %s has the type %r (only usize is translated)" % (name, ty))
            self.eat("=")
            e = self.expr()
            self.eat(";")
            lets.append((name, e))
        e = self.expr()
        self.eat("}")
        return ("block", lets, e)

    def expr(self):
        if self.at("|"):
            self.next()
            kind, name = self.next()
            if kind != "id" or "::" in name:
                _stop("unsupported closure parameter")
            if self.at(":"):
                self.next()
                tk, ty = self.next()
                if tk != "id" or ty != "usize":
                    _stop("closure parameter %r has the type %r (only usize is translated)" % (name, ty))
            self.eat("|")
            return ("closure", name, self.expr())
        if self.at("match"):
            return self.match()
        if self.at("if"):
            self.next()
            c = self.binary(0, no_struct=True)
            a = self.block()
            self.eat("else")
            b = self.block() if self.at("{") else ("block", [], self.expr())
            return ("ifelse", c, a, b)
        return self.binary(0)

    _PREC = {"||": 1, "&&": 2, "==": 3, "!=": 3, "<": 3, ">": 3, "<=": 3, ">=": 3, "+": 5, "-": 5, "*": 6, "/": 6, "%": 6}

    def binary(self, minp, no_struct=False):
        left = self.postfix()
        while True:
            op = self.peek()[1]
            p = self._PREC.get(op)
            if self.peek()[0] != "op" or p is None or p < minp:
                return left
            self.next()
            right = self.binary(p + 1, no_struct)
            left = ("bin", op, left, right)

    def postfix(self):
        e = self.primary()
        while True:
            if self.at("("):
                self.next()
                args = []
                while not self.at(")"):
                    args.append(self.expr())
                    if self.at(","):
                        self.next()
                self.eat(")")
                e = ("call", e, args)
            elif self.at("."):
                self.next()
                kind, name = self.next()
                if kind != "id":
                    _stop("unsupported field access")
                if self.at("("):
                    self.next()
                    args = []
                    while not self.at(")"):
                        args.append(self.expr())
                        if self.at(","):
                            self.next()
                    self.eat(")")
                    e = ("method", name, e, args)
                else:
                    e = ("field", e, name)
            else:
                return e

    def primary(self):
        kind, val = self.next()
        if kind == "int":
            return ("int", int(re.sub(r"[_a-z].*$", "", val.replace("_", ""))))
        if kind == "id":
            return ("var", val)
        if val == "(":
            items = [self.expr()]
            while self.at(","):
                self.next()
                if self.at(")"):
                    break
                items.append(self.expr())
            self.eat(")")
            return items[0] if len(items) == 1 else ("tuple", items)
        if val == "{":
            self.i -= 1
            return self.block()
        if val == "!":
            return ("not", self.postfix())
        _stop("unsupported expression starting with %r" % val)

    def pattern(self):
        kind, val = self.next()
        if kind == "int":
            p = ("pint", int(re.sub(r"[_a-z].*$", "", val.replace("_", ""))))
        elif kind == "id" and val == "_":
            p = ("pwild",)
        elif kind == "id" and "::" not in val:
            p = ("pbind", val)
        elif val == "(":
            items = [self.pattern()]
            while self.at(","):
                self.next()
                if self.at(")"):
                    break
                items.append(self.pattern())
            self.eat(")")
            p = ("ptuple", items)
        else:
            _stop("unsupported pattern starting with %r" % val)
        if self.at("|"):
            self.next()
            return ("por", p, self.pattern())
        if self.at(".") or self.at("@"):
            _stop("range / binding patterns are not supported")
        return p

    def match(self):
        self.eat("match")
        scrut = self.binary(0, no_struct=True)
        self.eat("{")
        arms = []
        while not self.at("}"):
            pat = self.pattern()
            guard = None
            if self.at("if"):
                self.next()
                guard = self.binary(0)
            self.eat("=>")
            if self.at("{"):
                body = self.block()
            else:
                body = self.expr()
            if self.at(","):
                self.next()
            arms.append((pat, guard, body))
        self.eat("}")
        return ("match", scrut, arms)


# ------------------------------------------------------------------ Lean printer

_SAT = {"saturating_add": "satAdd", "saturating_mul": "satMul", "saturating_sub": "satSub"}
_MAX = ("std::cmp::max", "cmp::max", "max", "core::cmp::max")
_MIN = ("std::cmp::min", "cmp::min", "min", "core::cmp::min")

# definitions every generated file starts with (namespace Generated.Usize)
USIZE_PRELUDE = """/-! `usize` arithmetic (64-bit target). -/
namespace Usize
/-- `usize::MAX` = 2^64 - 1 -/
def usizeMax : Nat := 18446744073709551615
/-- `a.saturating_add(b)` -/
def satAdd (a b : Nat) : Nat := min (a + b) usizeMax
/-- `a.saturating_mul(b)` -/
def satMul (a b : Nat) : Nat := min (a * b) usizeMax
/-- `a.saturating_sub(b)` (`Nat` subtraction stops at 0) -/
def satSub (a b : Nat) : Nat := a - b

/-- An operation on two evaluated operands; `none` = the operand (or the operation) panicked. -/
def ck2 (f : Nat → Nat → Option Nat) (a b : Option Nat) : Option Nat :=
  a.bind fun x => b.bind fun y => f x y
/-- `a + b` with overflow checks: `attempt to add with overflow` = `none` -/
def ckAdd : Option Nat → Option Nat → Option Nat := ck2 fun x y => if x + y ≤ usizeMax then some (x + y) else none
/-- `a * b` with overflow checks: `attempt to multiply with overflow` = `none` -/
def ckMul : Option Nat → Option Nat → Option Nat := ck2 fun x y => if x * y ≤ usizeMax then some (x * y) else none
/-- `a / b`: `attempt to divide by zero` = `none` -/
def ckDiv : Option Nat → Option Nat → Option Nat := ck2 fun x y => if y = 0 then none else some (x / y)
/-- `a % b`: division by zero = `none` -/
def ckRem : Option Nat → Option Nat → Option Nat := ck2 fun x y => if y = 0 then none else some (x % y)
def ckSatAdd : Option Nat → Option Nat → Option Nat := ck2 fun x y => some (satAdd x y)
def ckSatMul : Option Nat → Option Nat → Option Nat := ck2 fun x y => some (satMul x y)
def ckSatSub : Option Nat → Option Nat → Option Nat := ck2 fun x y => some (satSub x y)
def ckMax : Option Nat → Option Nat → Option Nat := ck2 fun x y => some (max x y)
def ckMin : Option Nat → Option Nat → Option Nat := ck2 fun x y => some (min x y)
end Usize

"""


class _Gen:
    """Translates the AST. `env`: Rust name -> Lean text of what it stands for (parameters, pattern
    bindings are substituted; `let`s and closures become Lean `let` / `fun`)."""

    def __init__(self):
        self.self_fields = []

    def expr(self, e, env, ind):
        k = e[0]
        if k == "int":
            return str(e[1])
        if k == "var":
            name = e[1]
            if name in env:
                return env[name]
            _stop("unknown name %r in config_max_line_length" % name)
        if k == "field":
            if e[1] == ("var", "self"):
                if e[2] not in self.self_fields:
                    self.self_fields.append(e[2])
                return _camel(e[2])
            _stop("unsupported field access .%s" % e[2])
        if k == "bin":
            op = e[1]
            a, b = self.expr(e[2], env, ind), self.expr(e[3], env, ind)
            if op == "-":
                _stop("usize subtraction (a panic point) is not in the translated subset")
            lop = {"==": "=", "!=": "≠", "&&": "∧", "||": "∨", "<=": "≤", ">=": "≥"}.get(op, op)
            return "(%s %s %s)" % (a, lop, b)
        if k == "not":
            return "(¬ %s)" % self.expr(e[1], env, ind)
        if k == "call":
            f, args = e[1], e[2]
            if f[0] == "var" and f[1] in _MAX and f[1] not in env and len(args) == 2:
                return "(max %s %s)" % (self.expr(args[0], env, ind), self.expr(args[1], env, ind))
            if f[0] == "var" and f[1] in _MIN and f[1] not in env and len(args) == 2:
                return "(min %s %s)" % (self.expr(args[0], env, ind), self.expr(args[1], env, ind))
            if f[0] == "var" and f[1] in env and len(args) == 1:
                return "(%s %s)" % (env[f[1]], self.expr(args[0], env, ind))
            _stop("unsupported call of %r" % (f[1] if f[0] == "var" else f[0]))
        if k == "method":
            name, recv, args = e[1], e[2], e[3]
            if name in ("max", "min") and len(args) == 1:
                return "(%s %s %s)" % (name, self.expr(recv, env, ind), self.expr(args[0], env, ind))
            if name in _SAT and len(args) == 1:
                return "(Usize.%s %s %s)" % (_SAT[name], self.expr(recv, env, ind), self.expr(args[0], env, ind))
            _stop("unsupported method .%s()" % name)
        if k == "closure":
            p = _camel(e[1])
            return "(fun %s => %s)" % (p, self.expr(e[2], dict(env, **{e[1]: p}), ind))
        if k == "block":
            env = dict(env)
            out = ""
            pad = " " * ind
            for name, val in e[1]:
                ln = _camel(name)
                out += "\n%slet %s := %s" % (pad, ln, self.expr(val, env, ind + 2))
                env[name] = ln
            body = self.expr(e[2], env, ind)
            return (out + "\n" + pad + body) if e[1] else body
        if k == "ifelse":
            pad = " " * ind
            return "(if %s then %s\n%selse %s)" % (self.expr(e[1], env, ind), self.expr(e[2], env, ind + 2), pad,
                                                    self.expr(e[3], env, ind + 2))
        if k == "match":
            return self.match(e, env, ind)
        if k == "tuple":
            _stop("tuple value outside a match scrutinee")
        _stop("unsupported construct %r" % k)

    def pat(self, p, scrut, env):
        """-> (list of Lean conditions, new bindings)"""
        k = p[0]
        if k == "pwild":
            return [], {}
        if k == "pbind":
            return [], {p[1]: scrut}
        if k == "pint":
            return ["%s = %d" % (scrut, p[1])], {}
        if k == "ptuple":
            if not isinstance(scrut, list) or len(scrut) != len(p[1]):
                _stop("tuple pattern against a non-tuple scrutinee")
            conds, binds = [], {}
            for q, s in zip(p[1], scrut):
                c, b = self.pat(q, s, env)
                conds += c
                binds.update(b)
            return conds, binds
        if k == "por":
            c1, b1 = self.pat(p[1], scrut, env)
            c2, b2 = self.pat(p[2], scrut, env)
            if b1 or b2:
                _stop("bindings inside an or-pattern")
            j = lambda c: "(" + " ∧ ".join(c) + ")" if c else "True"
            return ["(%s ∨ %s)" % (j(c1), j(c2))], {}
        _stop("unsupported pattern")

    def match(self, e, env, ind):
        scrut, arms = e[1], e[2]
        if scrut[0] == "tuple":
            sc = [self.expr(x, env, ind) for x in scrut[1]]
        else:
            sc = self.expr(scrut, env, ind)
        pad = " " * ind
        out, closed = "", False
        for n, (pat, guard, body) in enumerate(arms):
            if closed:
                _stop("arm after an irrefutable arm")
            conds, binds = self.pat(pat, sc, env)
            env2 = dict(env, **binds)
            if guard is not None:
                conds = conds + [self.expr(guard, env2, ind)]
            b = self.expr(body, env2, ind + 4)
            if conds:
                out += "%sif %s then %s\n%selse " % ("" if n else "", " ∧ ".join(conds), b, pad)
            else:
                out += b
                closed = True
        if not closed:
            _stop("match without a final irrefutable arm")
        return out


def _arith_free(e):
    """conditions / scrutinees the checked translation evaluates as they are: no operation that could panic"""
    k = e[0]
    if k in ("int", "var"):
        return True
    if k == "field":
        return e[1] == ("var", "self")
    if k == "bin":
        return e[1] in ("==", "!=", "<", ">", "<=", ">=", "&&", "||") and _arith_free(e[2]) and _arith_free(e[3])
    if k == "not":
        return _arith_free(e[1])
    if k == "tuple":
        return all(_arith_free(x) for x in e[1])
    return False


class _Chk:
    """The same syntax tree with the arithmetic of a build with overflow checks: every expression becomes an
    `Option Nat` (`none` = panic). `env`: Rust name -> Lean text of a `Nat` (parameters, pattern bindings, evaluated
    `let`s, closure parameters); names in `closures` are Lean functions `Nat -> Option Nat`."""

    _BIN = {"+": "ckAdd", "*": "ckMul", "/": "ckDiv", "%": "ckRem"}
    _METH = {"max": "ckMax", "min": "ckMin", "saturating_add": "ckSatAdd", "saturating_mul": "ckSatMul",
             "saturating_sub": "ckSatSub"}

    def __init__(self):
        self.nat = _Gen()

    def cond(self, e, env, ind):
        if not _arith_free(e):
            _stop("a condition / match scrutinee of config_max_line_length contains arithmetic or a call "
                  "(not in the subset of the overflow-checked translation)")
        return self.nat.expr(e, env, ind)

    def expr(self, e, env, clos, ind):
        k = e[0]
        if k == "int":
            return "(some %d)" % e[1]
        if k == "var":
            if e[1] in clos:
                _stop("closure %r used as a value" % e[1])
            if e[1] in env:
                return "(some %s)" % env[e[1]]
            _stop("unknown name %r in config_max_line_length" % e[1])
        if k == "field":
            return "(some %s)" % self.nat.expr(e, env, ind)
        if k == "bin":
            op = e[1]
            if op == "-":
                _stop("usize subtraction (a panic point) is not in the translated subset")
            if op not in self._BIN:
                _stop("comparison %r outside a condition" % op)
            return "(Usize.%s %s %s)" % (self._BIN[op], self.expr(e[2], env, clos, ind), self.expr(e[3], env, clos, ind))
        if k == "call":
            f, args = e[1], e[2]
            if f[0] == "var" and f[1] not in env and len(args) == 2 and (f[1] in _MAX or f[1] in _MIN):
                return "(Usize.%s %s %s)" % ("ckMax" if f[1] in _MAX else "ckMin", self.expr(args[0], env, clos, ind),
                                              self.expr(args[1], env, clos, ind))
            if f[0] == "var" and f[1] in clos and len(args) == 1:
                return "(%s.bind %s)" % (self.expr(args[0], env, clos, ind), env[f[1]])
            _stop("unsupported call of %r" % (f[1] if f[0] == "var" else f[0]))
        if k == "method":
            name, recv, args = e[1], e[2], e[3]
            if name in self._METH and len(args) == 1:
                return "(Usize.%s %s %s)" % (self._METH[name], self.expr(recv, env, clos, ind), self.expr(args[0], env, clos, ind))
            _stop("unsupported method .%s()" % name)
        if k == "closure":
            _stop("closure outside a `let`")
        if k == "block":
            env, clos = dict(env), set(clos)
            out = ""
            pad = " " * ind
            for name, val in e[1]:
                ln = _camel(name)
                if val[0] == "closure":
                    p = _camel(val[1])
                    body = self.expr(val[2], dict(env, **{val[1]: p}), clos - {val[1]}, ind + 2)
                    out += "\n%slet %s := (fun (%s : Nat) => %s)" % (pad, ln, p, body)
                    clos.add(name)
                else:
                    out += "\n%s%s.bind fun %s =>" % (pad, self.expr(val, env, clos, ind + 2), ln)
                    clos.discard(name)
                env[name] = ln
            body = self.expr(e[2], env, clos, ind)
            return (out + "\n" + pad + body) if e[1] else body
        if k == "ifelse":
            pad = " " * ind
            return "(if %s then %s\n%selse %s)" % (self.cond(e[1], env, ind), self.expr(e[2], env, clos, ind + 2), pad,
                                                    self.expr(e[3], env, clos, ind + 2))
        if k == "match":
            return self.match(e, env, clos, ind)
        _stop("unsupported construct %r" % k)

    def match(self, e, env, clos, ind):
        scrut, arms = e[1], e[2]
        if not _arith_free(scrut):
            _stop("the match scrutinee of config_max_line_length contains arithmetic or a call")
        if scrut[0] == "tuple":
            sc = [self.nat.expr(x, env, ind) for x in scrut[1]]
        else:
            sc = self.nat.expr(scrut, env, ind)
        pad = " " * ind
        out, closed = "", False
        for pat, guard, body in arms:
            if closed:
                _stop("arm after an irrefutable arm")
            conds, binds = self.nat.pat(pat, sc, env)
            env2 = dict(env, **binds)
            clos2 = clos - set(binds)
            if guard is not None:
                conds = conds + [self.cond(guard, env2, ind)]
            b = self.expr(body, env2, clos2, ind + 4)
            if conds:
                out += "if %s then %s\n%selse " % (" ∧ ".join(conds), b, pad)
            else:
                out += b
                closed = True
        if not closed:
            _stop("match without a final irrefutable arm")
        return out


def _fn_body(src, name):
    m = re.search(r"\bfn %s\s*\(([^)]*)\)\s*->\s*usize\s*\{" % re.escape(name), src)
    if not m:
        _stop("fn %s(..) -> usize not found" % name)
    i, depth = m.end() - 1, 0
    for j in range(i, len(src)):
        if src[j] == "{":
            depth += 1
        elif src[j] == "}":
            depth -= 1
            if depth == 0:
                return m.group(1), src[i:j + 1]
    _stop("unbalanced braces in fn %s" % name)


def gen_wrap_max_line_length(repo):
    wr = _read(repo, "src/wrapping.rs")
    cfg = _read(repo, "src/config.rs")

    # --- config_max_line_length
    params_src, body_src = _fn_body(wr, "config_max_line_length")
    params = [p.strip() for p in params_src.split(",") if p.strip()]
    if not params or params[0] != "&self":
        _stop("config_max_line_length is no longer a &self method")
    names = []
    for p in params[1:]:
        m = re.fullmatch(r"(\w+)\s*:\s*usize", p)
        if not m:
            _stop("parameter %r of config_max_line_length is not usize" % p)
        names.append(m.group(1))
    ast = _P(_tokens(body_src)).block()
    g = _Gen()
    env = {n: _camel(n) for n in names}
    body = g.expr(ast, env, 2)
    chk_body = _Chk().expr(ast, env, set(), 2)
    if g.self_fields != ["max_lines"]:
        _stop("config_max_line_length reads the fields %r of WrapConfig (expected: max_lines)" % g.self_fields)
    lean_params = [_camel(f) for f in g.self_fields] + [_camel(n) for n in names]

    # --- the call in Config::from
    m = re.search(r"max_line_length:\s*if\s+opt\.side_by_side\s*\{\s*wrap_config\.config_max_line_length\(\s*"
                  r"([\w.]+)\s*,\s*([\w.]+)\s*,?\s*\)\s*\}\s*else\s*\{\s*([\w.]+)\s*\}", cfg)
    if not m:
        _stop("Config::from: `max_line_length: if opt.side_by_side { wrap_config.config_max_line_length(a, b) } else { c }` not found")
    a1, a2, a3 = m.group(1), m.group(2), m.group(3)
    if a1 != "opt.max_line_length" or a3 != "opt.max_line_length":
        _stop("Config::from passes %r / falls back to %r (expected opt.max_line_length)" % (a1, a3))
    # the width argument: the terminal width (code as pinned), or the width the panels are derived from
    # (notes/fix-sbs-max-line-length-width.diff: `--width N` => N, else the terminal width, as in new_sbs)
    if a2 == "opt.computed.available_terminal_width":
        width_arg, uses_view = "availableTerminalWidth", False
    elif a2 == "side_by_side_width" and re.search(
            r"let side_by_side_width = match opt\.computed\.decorations_width \{\s*cli::Width::Fixed\((\w+)\) => \1,\s*"
            r"(?:cli::Width::Variable|_) => opt\.computed\.available_terminal_width,\s*\};", cfg):
        width_arg, uses_view = "(match fixedWidth with | some w => w | none => availableTerminalWidth)", True
    else:
        _stop("Config::from passes %r as the width to config_max_line_length (unknown)" % a2)
    if len(names) != 2:
        _stop("config_max_line_length no longer takes two usize arguments")
    if not re.search(r"let wrap_config = WrapConfig::from_opt\(&opt, [^;]*\);", cfg):
        _stop("Config::from: wrap_config is no longer WrapConfig::from_opt(&opt, …)")

    # --- the guard of the truncation in ingest_line_utf8 uses config.max_line_length for both roles
    de = _read(repo, "src/delta.rs")
    if not re.search(r"if self\.config\.max_line_length > 0\s*&& self\.raw_line\.len\(\) > self\.config\.max_line_length", de):
        _stop("ingest_line_utf8: truncation guard on config.max_line_length not found")
    if not re.search(r"ansi::truncate_str\(\s*&self\.raw_line,\s*self\.config\.max_line_length,\s*&self\.config\.truncation_symbol,?\s*\)", de):
        _stop("ingest_line_utf8: truncate_str(raw_line, config.max_line_length, truncation_symbol) not found")

    # --- adapt_wrap_max_lines_argument: `<parsed number> + N` (as pinned) or `<parsed number>.saturating_add(N)`
    # (notes/fix-wrap-max-lines-overflow.diff)
    m = re.search(r'fn adapt_wrap_max_lines_argument\(arg: String\) -> usize \{\s*'
                  r'if arg == "∞" \|\| arg == "unlimited" \|\| arg\.starts_with\("inf"\) \{\s*(\d+)\s*\} else \{\s*'
                  r'arg\.parse::<usize>\(\)\s*\.unwrap_or_else\([^\n]*\)\s*'
                  r'(?:\+ (\d+)|\.saturating_add\((\d+)\))\s*\}\s*\}', wr)
    if not m:
        _stop("adapt_wrap_max_lines_argument has an unknown shape")
    unlimited = int(m.group(1))
    inc_saturates = m.group(2) is None
    inc = int(m.group(3) if inc_saturates else m.group(2))
    if not re.search(r"max_lines: adapt_wrap_max_lines_argument\(opt\.wrap_max_lines\.clone\(\)\),", wr):
        _stop("WrapConfig::from_opt: max_lines is no longer adapt_wrap_max_lines_argument(opt.wrap_max_lines)")

    out = "-- GENERATED by /verif/tools/extractors/wrap_maxlen.py from /repo/src — do not edit.\n"
    out += "namespace Generated\n\n"
    out += USIZE_PRELUDE
    out += ("/-- `WrapConfig::config_max_line_length` (src/wrapping.rs), translated arm by arm in source order\n"
            "    (`match` = first arm that applies). `maxLines` = `self.max_lines`. `usize` as `Nat`: plain `+ * /` equal the\n"
            "    Rust operations as long as no intermediate value exceeds `usize::MAX` (made precise by\n"
            "    `configMaxLineLengthChecked`); `saturating_*` = `Usize.sat*`. -/\n")
    out += "def configMaxLineLength (%s : Nat) : Nat :=\n  %s\n\n" % (" ".join(lean_params), body.lstrip("\n "))
    out += ("/-- The same arms with the arithmetic of a build with overflow checks (dev profile): `none` = panic\n"
            "    (`attempt to add / multiply with overflow`, division by zero); `let`s and calls are strict. -/\n")
    out += "def configMaxLineLengthChecked (%s : Nat) : Option Nat :=\n  %s\n\n" % (" ".join(lean_params), chk_body.lstrip("\n "))
    out += ("/-- The width `Config::from` hands to `config_max_line_length` (`%s`). `fixedWidth` = `Some(N)` for\n"
            "    `opt.computed.decorations_width = Width::Fixed(N)` (`--width N`, or no `--width`: then N = the terminal width),\n"
            "    `none` for `--width variable`. -/\n" % a2)
    out += "def maxLenWidthArg (availableTerminalWidth : Nat) (fixedWidth : Option Nat) : Nat :=\n  %s\n\n" % width_arg
    out += "/-- does that width follow `--width` (the panels do: `SideBySideData::new_sbs`)? -/\n"
    out += "def maxLenUsesViewWidth : Bool := %s\n\n" % ("true" if uses_view else "false")
    out += ("/-- `Config::from` (src/config.rs): `max_line_length: if opt.side_by_side {\n"
            "    wrap_config.config_max_line_length(%s, %s) } else { %s }` -/\n" % (a1, a2, a3))
    out += ("def configMaxLen (sideBySide : Bool) (maxLines optMaxLineLength availableTerminalWidth : Nat)\n"
            "    (fixedWidth : Option Nat) : Nat :=\n"
            "  if sideBySide then configMaxLineLength maxLines optMaxLineLength (maxLenWidthArg availableTerminalWidth fixedWidth)\n"
            "  else optMaxLineLength\n\n")
    out += ("/-- `adapt_wrap_max_lines_argument`: `WrapConfig.max_lines` for `--wrap-max-lines unlimited` (also `∞`, `inf…`) -/\n"
            "def wrapMaxLinesUnlimited : Nat := %d\n" % unlimited)
    out += ("/-- `adapt_wrap_max_lines_argument`: `WrapConfig.max_lines` = argument + this (`+`, or `saturating_add`) -/\n"
            "def wrapMaxLinesIncrement : Nat := %d\n" % inc)
    out += ("/-- `adapt_wrap_max_lines_argument`: `WrapConfig.max_lines` for a numeric argument `n` (source: `%s`) -/\n"
            "def wrapMaxLinesOfNumber (n : Nat) : Nat := %s\n"
            % (".saturating_add(%d)" % inc if inc_saturates else "+ %d" % inc,
               "(Usize.satAdd n %d)" % inc if inc_saturates else "(n + %d)" % inc))
    out += ("/-- … with the arithmetic of a build with overflow checks: `none` = panic -/\n"
            "def wrapMaxLinesOfNumberChecked (n : Nat) : Option Nat := (Usize.%s (some n) (some %d))\n"
            % ("ckSatAdd" if inc_saturates else "ckAdd", inc))
    out += "\nend Generated\n"
    return out


GENERATORS = [("WrapMaxLineLength", gen_wrap_max_line_length)]
