"""Extractor plugin for C07: `WrapConfig::config_max_line_length` (src/wrapping.rs), its call in
`Config::from` (src/config.rs) and `adapt_wrap_max_lines_argument`
-> lean/DeltaModel/Generated/WrapMaxLineLength.lean

The body of `config_max_line_length` is *translated*: a small parser for the Rust subset the function is
written in (one `match` on an expression or a tuple of expressions; arms with integer / `_` / binding /
tuple patterns and optional `if` guards; blocks of `let` statements, one-parameter closures, calls,
`std::cmp::max/min`, `+ * /`, comparisons) produces a Lean `if … then … else …` chain with the arms in
source order (first match wins, as in Rust). Anything outside the subset stops the extraction
(`SystemExit("extract: …")`), which the check reports as a broken tie.
"""
import os
import re


def _read(repo, rel):
    return open(os.path.join(repo, rel), encoding="utf-8").read()


def _stop(msg):
    raise SystemExit("extract: wrap_maxlen: " + msg)


def _camel(name):
    parts = [p for p in name.split("_") if p]
    if not parts:
        return "x_"
    out = parts[0] + "".join(p[:1].upper() + p[1:] for p in parts[1:])
    if out in ("max", "min", "fun", "let", "if", "then", "else", "match", "with", "at", "from", "by", "end", "in"):
        out += "_"
    return out


# ------------------------------------------------------------------ tokens

_TOK = re.compile(r"""
    (?P<ws>\s+|//[^\n]*)
  | (?P<int>\d[\d_]*(?:usize|u64|u32)?)
  | (?P<id>[A-Za-z_][A-Za-z0-9_]*(?:::[A-Za-z_][A-Za-z0-9_]*)*)
  | (?P<op>=>|==|!=|<=|>=|&&|\|\||[-+*/%(){},;|=<>!.&])
""", re.X)


def _tokens(src):
    out, i = [], 0
    while i < len(src):
        m = _TOK.match(src, i)
        if not m:
            _stop("cannot tokenize config_max_line_length at %r" % src[i:i + 30])
        i = m.end()
        if m.lastgroup == "ws":
            continue
        out.append((m.lastgroup, m.group(m.lastgroup)))
    return out


# ------------------------------------------------------------------ parser (AST = nested tuples)

class _P:
    def __init__(self, toks):
        self.t, self.i = toks, 0

    def peek(self, k=0):
        return self.t[self.i + k] if self.i + k < len(self.t) else ("eof", "")

    def next(self):
        tok = self.peek()
        self.i += 1
        return tok

    def eat(self, val):
        if self.peek()[1] != val:
            _stop("expected %r, found %r (token %d)" % (val, self.peek()[1], self.i))
        self.i += 1

    def at(self, val):
        return self.peek()[1] == val

    # block := '{' ('let' ident '=' expr ';')* expr '}'
    def block(self):
        self.eat("{")
        lets = []
        while self.at("let"):
            self.next()
            kind, name = self.next()
            if kind != "id" or "::" in name:
                _stop("unsupported let pattern %r" % name)
            self.eat("=")
            e = self.expr()
            self.eat(";")
            lets.append((name, e))
        e = self.expr()
        self.eat("}")
        return ("block", lets, e)

    def expr(self):
        if self.at("|"):
            self.next()
            kind, name = self.next()
            if kind != "id":
                _stop("unsupported closure parameter")
            self.eat("|")
            return ("closure", name, self.expr())
        if self.at("match"):
            return self.match()
        if self.at("if"):
            self.next()
            c = self.binary(0, no_struct=True)
            a = self.block()
            self.eat("else")
            b = self.block() if self.at("{") else ("block", [], self.expr())
            return ("ifelse", c, a, b)
        return self.binary(0)

    _PREC = {"||": 1, "&&": 2, "==": 3, "!=": 3, "<": 3, ">": 3, "<=": 3, ">=": 3, "+": 5, "-": 5, "*": 6, "/": 6, "%": 6}

    def binary(self, minp, no_struct=False):
        left = self.postfix()
        while True:
            op = self.peek()[1]
            p = self._PREC.get(op)
            if self.peek()[0] != "op" or p is None or p < minp:
                return left
            self.next()
            right = self.binary(p + 1, no_struct)
            left = ("bin", op, left, right)

    def postfix(self):
        e = self.primary()
        while True:
            if self.at("("):
                self.next()
                args = []
                while not self.at(")"):
                    args.append(self.expr())
                    if self.at(","):
                        self.next()
                self.eat(")")
                e = ("call", e, args)
            elif self.at("."):
                self.next()
                kind, name = self.next()
                if kind != "id":
                    _stop("unsupported field access")
                if self.at("("):
                    self.next()
                    args = []
                    while not self.at(")"):
                        args.append(self.expr())
                        if self.at(","):
                            self.next()
                    self.eat(")")
                    e = ("method", name, e, args)
                else:
                    e = ("field", e, name)
            else:
                return e

    def primary(self):
        kind, val = self.next()
        if kind == "int":
            return ("int", int(re.sub(r"[_a-z].*$", "", val.replace("_", ""))))
        if kind == "id":
            return ("var", val)
        if val == "(":
            items = [self.expr()]
            while self.at(","):
                self.next()
                if self.at(")"):
                    break
                items.append(self.expr())
            self.eat(")")
            return items[0] if len(items) == 1 else ("tuple", items)
        if val == "{":
            self.i -= 1
            return self.block()
        if val == "!":
            return ("not", self.postfix())
        _stop("unsupported expression starting with %r" % val)

    def pattern(self):
        kind, val = self.next()
        if kind == "int":
            p = ("pint", int(re.sub(r"[_a-z].*$", "", val.replace("_", ""))))
        elif kind == "id" and val == "_":
            p = ("pwild",)
        elif kind == "id" and "::" not in val:
            p = ("pbind", val)
        elif val == "(":
            items = [self.pattern()]
            while self.at(","):
                self.next()
                if self.at(")"):
                    break
                items.append(self.pattern())
            self.eat(")")
            p = ("ptuple", items)
        else:
            _stop("unsupported pattern starting with %r" % val)
        if self.at("|"):
            self.next()
            return ("por", p, self.pattern())
        if self.at(".") or self.at("@"):
            _stop("range / binding patterns are not supported")
        return p

    def match(self):
        self.eat("match")
        scrut = self.binary(0, no_struct=True)
        self.eat("{")
        arms = []
        while not self.at("}"):
            pat = self.pattern()
            guard = None
            if self.at("if"):
                self.next()
                guard = self.binary(0)
            self.eat("=>")
            if self.at("{"):
                body = self.block()
            else:
                body = self.expr()
            if self.at(","):
                self.next()
            arms.append((pat, guard, body))
        self.eat("}")
        return ("match", scrut, arms)


# ------------------------------------------------------------------ Lean printer

class _Gen:
    """Translates the AST. `env`: Rust name -> Lean text of what it stands for (parameters, pattern
    bindings are substituted; `let`s and closures become Lean `let` / `fun`)."""

    def __init__(self):
        self.self_fields = []

    def expr(self, e, env, ind):
        k = e[0]
        if k == "int":
            return str(e[1])
        if k == "var":
            name = e[1]
            if name in env:
                return env[name]
            _stop("unknown name %r in config_max_line_length" % name)
        if k == "field":
            if e[1] == ("var", "self"):
                if e[2] not in self.self_fields:
                    self.self_fields.append(e[2])
                return _camel(e[2])
            _stop("unsupported field access .%s" % e[2])
        if k == "bin":
            op = e[1]
            a, b = self.expr(e[2], env, ind), self.expr(e[3], env, ind)
            if op == "-":
                _stop("usize subtraction (a panic point) is not in the translated subset")
            lop = {"==": "=", "!=": "≠", "&&": "∧", "||": "∨", "<=": "≤", ">=": "≥"}.get(op, op)
            return "(%s %s %s)" % (a, lop, b)
        if k == "not":
            return "(¬ %s)" % self.expr(e[1], env, ind)
        if k == "call":
            f, args = e[1], e[2]
            if f[0] == "var" and f[1] in ("std::cmp::max", "cmp::max", "max", "core::cmp::max") and len(args) == 2:
                return "(max %s %s)" % (self.expr(args[0], env, ind), self.expr(args[1], env, ind))
            if f[0] == "var" and f[1] in ("std::cmp::min", "cmp::min", "min", "core::cmp::min") and len(args) == 2:
                return "(min %s %s)" % (self.expr(args[0], env, ind), self.expr(args[1], env, ind))
            if f[0] == "var" and f[1] in env and len(args) == 1:
                return "(%s %s)" % (env[f[1]], self.expr(args[0], env, ind))
            _stop("unsupported call of %r" % (f[1] if f[0] == "var" else f[0]))
        if k == "method":
            name, recv, args = e[1], e[2], e[3]
            if name in ("max", "min") and len(args) == 1:
                return "(%s %s %s)" % (name, self.expr(recv, env, ind), self.expr(args[0], env, ind))
            if name == "saturating_sub" and len(args) == 1:
                return "(%s - %s)" % (self.expr(recv, env, ind), self.expr(args[0], env, ind))
            _stop("unsupported method .%s()" % name)
        if k == "closure":
            p = _camel(e[1])
            return "(fun %s => %s)" % (p, self.expr(e[2], dict(env, **{e[1]: p}), ind))
        if k == "block":
            env = dict(env)
            out = ""
            pad = " " * ind
            for name, val in e[1]:
                ln = _camel(name)
                out += "\n%slet %s := %s" % (pad, ln, self.expr(val, env, ind + 2))
                env[name] = ln
            body = self.expr(e[2], env, ind)
            return (out + "\n" + pad + body) if e[1] else body
        if k == "ifelse":
            pad = " " * ind
            return "(if %s then %s\n%selse %s)" % (self.expr(e[1], env, ind), self.expr(e[2], env, ind + 2), pad,
                                                    self.expr(e[3], env, ind + 2))
        if k == "match":
            return self.match(e, env, ind)
        if k == "tuple":
            _stop("tuple value outside a match scrutinee")
        _stop("unsupported construct %r" % k)

    def pat(self, p, scrut, env):
        """-> (list of Lean conditions, new bindings)"""
        k = p[0]
        if k == "pwild":
            return [], {}
        if k == "pbind":
            return [], {p[1]: scrut}
        if k == "pint":
            return ["%s = %d" % (scrut, p[1])], {}
        if k == "ptuple":
            if not isinstance(scrut, list) or len(scrut) != len(p[1]):
                _stop("tuple pattern against a non-tuple scrutinee")
            conds, binds = [], {}
            for q, s in zip(p[1], scrut):
                c, b = self.pat(q, s, env)
                conds += c
                binds.update(b)
            return conds, binds
        if k == "por":
            c1, b1 = self.pat(p[1], scrut, env)
            c2, b2 = self.pat(p[2], scrut, env)
            if b1 or b2:
                _stop("bindings inside an or-pattern")
            j = lambda c: "(" + " ∧ ".join(c) + ")" if c else "True"
            return ["(%s ∨ %s)" % (j(c1), j(c2))], {}
        _stop("unsupported pattern")

    def match(self, e, env, ind):
        scrut, arms = e[1], e[2]
        if scrut[0] == "tuple":
            sc = [self.expr(x, env, ind) for x in scrut[1]]
        else:
            sc = self.expr(scrut, env, ind)
        pad = " " * ind
        out, closed = "", False
        for n, (pat, guard, body) in enumerate(arms):
            if closed:
                _stop("arm after an irrefutable arm")
            conds, binds = self.pat(pat, sc, env)
            env2 = dict(env, **binds)
            if guard is not None:
                conds = conds + [self.expr(guard, env2, ind)]
            b = self.expr(body, env2, ind + 4)
            if conds:
                out += "%sif %s then %s\n%selse " % ("" if n else "", " ∧ ".join(conds), b, pad)
            else:
                out += b
                closed = True
        if not closed:
            _stop("match without a final irrefutable arm")
        return out


def _fn_body(src, name):
    m = re.search(r"\bfn %s\s*\(([^)]*)\)\s*->\s*usize\s*\{" % re.escape(name), src)
    if not m:
        _stop("fn %s(..) -> usize not found" % name)
    i, depth = m.end() - 1, 0
    for j in range(i, len(src)):
        if src[j] == "{":
            depth += 1
        elif src[j] == "}":
            depth -= 1
            if depth == 0:
                return m.group(1), src[i:j + 1]
    _stop("unbalanced braces in fn %s" % name)


def gen_wrap_max_line_length(repo):
    wr = _read(repo, "src/wrapping.rs")
    cfg = _read(repo, "src/config.rs")

    # --- config_max_line_length
    params_src, body_src = _fn_body(wr, "config_max_line_length")
    params = [p.strip() for p in params_src.split(",") if p.strip()]
    if not params or params[0] != "&self":
        _stop("config_max_line_length is no longer a &self method")
    names = []
    for p in params[1:]:
        m = re.fullmatch(r"(\w+)\s*:\s*usize", p)
        if not m:
            _stop("parameter %r of config_max_line_length is not usize" % p)
        names.append(m.group(1))
    ast = _P(_tokens(body_src)).block()
    g = _Gen()
    env = {n: _camel(n) for n in names}
    body = g.expr(ast, env, 2)
    if g.self_fields != ["max_lines"]:
        _stop("config_max_line_length reads the fields %r of WrapConfig (expected: max_lines)" % g.self_fields)
    lean_params = [_camel(f) for f in g.self_fields] + [_camel(n) for n in names]

    # --- the call in Config::from
    m = re.search(r"max_line_length:\s*if\s+opt\.side_by_side\s*\{\s*wrap_config\.config_max_line_length\(\s*"
                  r"([\w.]+)\s*,\s*([\w.]+)\s*,?\s*\)\s*\}\s*else\s*\{\s*([\w.]+)\s*\}", cfg)
    if not m:
        _stop("Config::from: `max_line_length: if opt.side_by_side { wrap_config.config_max_line_length(a, b) } else { c }` not found")
    a1, a2, a3 = m.group(1), m.group(2), m.group(3)
    if a1 != "opt.max_line_length" or a3 != "opt.max_line_length":
        _stop("Config::from passes %r / falls back to %r (expected opt.max_line_length)" % (a1, a3))
    # the width argument: the terminal width (code as pinned), or the width the panels are derived from
    # (notes/fix-sbs-max-line-length-width.diff: `--width N` => N, else the terminal width, as in new_sbs)
    if a2 == "opt.computed.available_terminal_width":
        width_arg, uses_view = "availableTerminalWidth", False
    elif a2 == "side_by_side_width" and re.search(
            r"let side_by_side_width = match opt\.computed\.decorations_width \{\s*cli::Width::Fixed\((\w+)\) => \1,\s*"
            r"(?:cli::Width::Variable|_) => opt\.computed\.available_terminal_width,\s*\};", cfg):
        width_arg, uses_view = "(match fixedWidth with | some w => w | none => availableTerminalWidth)", True
    else:
        _stop("Config::from passes %r as the width to config_max_line_length (unknown)" % a2)
    if len(names) != 2:
        _stop("config_max_line_length no longer takes two usize arguments")
    if not re.search(r"let wrap_config = WrapConfig::from_opt\(&opt, [^;]*\);", cfg):
        _stop("Config::from: wrap_config is no longer WrapConfig::from_opt(&opt, …)")

    # --- the guard of the truncation in ingest_line_utf8 uses config.max_line_length for both roles
    de = _read(repo, "src/delta.rs")
    if not re.search(r"if self\.config\.max_line_length > 0\s*&& self\.raw_line\.len\(\) > self\.config\.max_line_length", de):
        _stop("ingest_line_utf8: truncation guard on config.max_line_length not found")
    if not re.search(r"ansi::truncate_str\(\s*&self\.raw_line,\s*self\.config\.max_line_length,\s*&self\.config\.truncation_symbol,?\s*\)", de):
        _stop("ingest_line_utf8: truncate_str(raw_line, config.max_line_length, truncation_symbol) not found")

    # --- adapt_wrap_max_lines_argument
    m = re.search(r'fn adapt_wrap_max_lines_argument\(arg: String\) -> usize \{\s*'
                  r'if arg == "∞" \|\| arg == "unlimited" \|\| arg\.starts_with\("inf"\) \{\s*(\d+)\s*\} else \{\s*'
                  r'arg\.parse::<usize>\(\)\s*\.unwrap_or_else\([^\n]*\)\s*\+ (\d+)\s*\}\s*\}', wr)
    if not m:
        _stop("adapt_wrap_max_lines_argument has an unknown shape")
    unlimited, inc = int(m.group(1)), int(m.group(2))
    if not re.search(r"max_lines: adapt_wrap_max_lines_argument\(opt\.wrap_max_lines\.clone\(\)\),", wr):
        _stop("WrapConfig::from_opt: max_lines is no longer adapt_wrap_max_lines_argument(opt.wrap_max_lines)")

    out = "-- GENERATED by /verif/tools/extractors/wrap_maxlen.py from /repo/src — do not edit.\n"
    out += "namespace Generated\n\n"
    out += ("/-- `WrapConfig::config_max_line_length` (src/wrapping.rs), translated arm by arm in source order\n"
            "    (`match` = first arm that applies). `maxLines` = `self.max_lines`. `usize` as `Nat`: equal as long as\n"
            "    no intermediate value exceeds `usize::MAX`. -/\n")
    out += "def configMaxLineLength (%s : Nat) : Nat :=\n  %s\n\n" % (" ".join(lean_params), body.lstrip("\n "))
    out += ("/-- The width `Config::from` hands to `config_max_line_length` (`%s`). `fixedWidth` = `Some(N)` for\n"
            "    `opt.computed.decorations_width = Width::Fixed(N)` (`--width N`, or no `--width`: then N = the terminal width),\n"
            "    `none` for `--width variable`. -/\n" % a2)
    out += "def maxLenWidthArg (availableTerminalWidth : Nat) (fixedWidth : Option Nat) : Nat :=\n  %s\n\n" % width_arg
    out += "/-- does that width follow `--width` (the panels do: `SideBySideData::new_sbs`)? -/\n"
    out += "def maxLenUsesViewWidth : Bool := %s\n\n" % ("true" if uses_view else "false")
    out += ("/-- `Config::from` (src/config.rs): `max_line_length: if opt.side_by_side {\n"
            "    wrap_config.config_max_line_length(%s, %s) } else { %s }` -/\n" % (a1, a2, a3))
    out += ("def configMaxLen (sideBySide : Bool) (maxLines optMaxLineLength availableTerminalWidth : Nat)\n"
            "    (fixedWidth : Option Nat) : Nat :=\n"
            "  if sideBySide then configMaxLineLength maxLines optMaxLineLength (maxLenWidthArg availableTerminalWidth fixedWidth)\n"
            "  else optMaxLineLength\n\n")
    out += ("/-- `adapt_wrap_max_lines_argument`: `WrapConfig.max_lines` for `--wrap-max-lines unlimited` (also `∞`, `inf…`) -/\n"
            "def wrapMaxLinesUnlimited : Nat := %d\n" % unlimited)
    out += ("/-- `adapt_wrap_max_lines_argument`: `WrapConfig.max_lines` = argument + this -/\n"
            "def wrapMaxLinesIncrement : Nat := %d\n" % inc)
    out += "\nend Generated\n"
    return out


GENERATORS = [("WrapMaxLineLength", gen_wrap_max_line_length)]
