#!/usr/bin/env python3
"""Assemble DESIGN.md from tools/DESIGN.{head,mid,tail}.md + generated tables (fix commits, hook commits,
known findings, seeded-change results in seeded/RESULTS.md)."""
import glob, json, os, subprocess
ROOT = os.path.dirname(os.path.dirname(os.path.abspath(__file__)))
log = subprocess.run(["git", "-C", "/repo", "log", "--reverse", "--format=%h %s", "e99212b..HEAD"],
                     capture_output=True, text=True).stdout.strip().split("\n")
fixes = "\n".join(f"| `{l.split()[0]}` | {l.split(' ', 2)[2]} |" for l in log if l.split(" ", 1)[1].startswith("fix:"))
hooks = "\n".join(f"  * `{l.split()[0]}` {l.split(' ', 1)[1]}" for l in log if not l.split(" ", 1)[1].startswith("fix:"))
kf = []
for f in sorted(glob.glob(os.path.join(ROOT, "known_findings", "*.json"))):
    for x in json.load(open(f)).get("findings", []):
        kf.append(f"| {x['property']} | `{x['id']}` | {x['what'][:400].replace('|', '/')} |")
seeded = os.path.join(ROOT, "seeded", "RESULTS.md")
seeded = open(seeded).read() if os.path.exists(seeded) else "(results are recorded in `seeded/RESULTS.md` as they are confirmed)"
parts = [open(os.path.join(ROOT, "tools", f"DESIGN.{p}.md")).read() for p in ("head", "mid", "tail")]
text = "".join(parts).replace("{{FIXES}}", fixes).replace("{{HOOKS}}", hooks).replace("{{KNOWN}}", "\n".join(kf)).replace("{{SEEDED}}", seeded)
open(os.path.join(ROOT, "DESIGN.md"), "w").write(text)
print("DESIGN.md", len(text), "bytes")
