#!/bin/sh
# snapshot the whole /verif working tree (tracked + untracked) into refs/autosave/<time> without touching HEAD or the index
cd /verif || exit 1
while true; do
  export GIT_INDEX_FILE=/verif/.git/autosave.index
  cp -f /verif/.git/index "$GIT_INDEX_FILE" 2>/dev/null
  git add -A >/dev/null 2>&1
  tree=$(git write-tree 2>/dev/null)
  unset GIT_INDEX_FILE
  if [ -n "$tree" ]; then
    c=$(git commit-tree "$tree" -p HEAD -m "autosave $(date -u +%H:%M:%S)")
    git update-ref "refs/autosave/$(date -u +%H%M%S)" "$c"
  fi
  sleep 90
done
