#!/usr/bin/env python3
"""Re-run tools/seedtest.py for stored seeded changes (final verdicts of the current checks), N in parallel.
usage: tools/seedrerun.py <workers> <glob under seeded/> [<glob> ...]   e.g. tools/seedrerun.py 3 '*-w6-*' '*-w5-*'
A seed whose meta.json has extra checks recorded (verif_checks with several ids) is re-run with all of them.
Log: /root/seedrerun.log (one line per seed and check)."""
import glob, json, os, queue, subprocess, sys, threading
ROOT = os.path.dirname(os.path.dirname(os.path.abspath(__file__)))
workers = int(sys.argv[1])
dirs = []
for pat in sys.argv[2:]:
    for d in sorted(glob.glob(os.path.join(ROOT, "seeded", pat))):
        if os.path.isdir(d) and os.path.exists(os.path.join(d, "patch.diff")) and d not in dirs:
            dirs.append(d)
q = queue.Queue()
for d in dirs:
    q.put(d)
lock = threading.Lock()


def worker(k):
    while True:
        try:
            d = q.get_nowait()
        except queue.Empty:
            return
        name = os.path.basename(d)
        pid = name[:3]
        try:
            extra = [c for c in json.load(open(os.path.join(d, "meta.json"))).get("verif_checks", {}) if c != pid]
        except Exception:
            extra = []
        env = dict(os.environ, SEED_WT=f"/tmp/seed-wt-r{k}")
        p = subprocess.run([sys.executable, os.path.join(ROOT, "tools", "seedtest.py"), d, pid] + extra,
                           capture_output=True, text=True, env=env, cwd=ROOT)
        with lock, open("/root/seedrerun.log", "a") as f:
            try:
                r = json.loads(p.stdout[p.stdout.index("{"):])
                f.write(f"{name} {'confirmed' if r.get('confirmed') else 'NOT CONFIRMED'}\n")
                for c, v in r.get("checks", {}).items():
                    f.write(f"    {c} rc {v['rc']} with-replay {v['violations_with_replay']} no-input {v['violations_no_input']} {v['signatures'][:2]}\n")
            except Exception:
                f.write(f"{name} ERROR {p.stdout[-600:]} {p.stderr[-600:]}\n")


ts = [threading.Thread(target=worker, args=(k,)) for k in range(workers)]
for t in ts:
    t.start()
for t in ts:
    t.join()
for k in range(workers):
    subprocess.run([sys.executable, os.path.join(ROOT, "tools", "seedtest.py"), "--cleanup"],
                   env=dict(os.environ, SEED_WT=f"/tmp/seed-wt-r{k}"))
print("done", len(dirs))
