#!/usr/bin/env python3
"""Confirm a seeded change against the *current* /repo main and run the check(s) against it.

usage: tools/seedtest.py <dir with patch.diff, demo.sh, meta.json> <property id> [extra check ids...] [--name <suffix>]
A scratch worktree of /repo at HEAD (/tmp/seed-wt, outside /repo and /verif; created on demand, reused, removed by
`tools/seedtest.py --cleanup`) receives the patch (3-way if the author's base was older).
Steps: build HEAD -> delta.orig; apply patch; build; demo passes on delta.orig and fails on the changed binary;
`cargo test --offline` passes; copy artefacts to /verif/seeded/<id>-<suffix>/; run ./check with VERIF_REPO=<worktree>
(evidence of such runs goes to .build/evidence-scratch, never to evidence/); undo the patch.
Appends a result line to seeded/results.jsonl.
"""
import hashlib, json, os, re, shutil, subprocess, sys, time
ROOT = os.path.dirname(os.path.dirname(os.path.abspath(__file__)))
WT = os.environ.get("SEED_WT", "/tmp/seed-wt")


def sh(cmd, **kw):
    return subprocess.run(cmd, shell=True, capture_output=True, text=True, **kw)


def cleanup():
    sh(f"git -C /repo worktree remove --force {WT}")
    h = hashlib.sha256(os.path.realpath(WT).encode()).hexdigest()[:10]
    for d in (f"target-{h}", f"lean-{h}"):
        shutil.rmtree(os.path.join(ROOT, ".build", d), ignore_errors=True)
    shutil.rmtree(WT, ignore_errors=True)


if sys.argv[1] == "--cleanup":
    cleanup(); sys.exit(0)
args = sys.argv[1:]
name = None
if "--name" in args:
    i = args.index("--name"); name = args[i + 1]; del args[i:i + 2]
src, pid, extra = os.path.abspath(args[0]), args[1], args[2:]
if not name and os.path.basename(src).startswith(pid + "-"):
    name = os.path.basename(src)[len(pid) + 1:]
name = name or os.path.basename(os.path.dirname(os.path.dirname(src)))
head = sh("git -C /repo rev-parse HEAD").stdout.strip()
if not os.path.isdir(WT):
    r = sh(f"git -C /repo worktree add --detach {WT} {head}")
    assert r.returncode == 0, r.stderr
sh("git reset -q --hard && git clean -fdq -e target -e delta.orig", cwd=WT)
sh(f"git checkout -q --detach {head}", cwd=WT)
res = dict(property=pid, name=name, source=src, base=head[:7], at=time.strftime("%H:%M"))
b0 = sh("cargo build --offline 2>&1 | tail -2", cwd=WT)
assert "Finished" in b0.stdout, b0.stdout
orig = os.path.join(WT, "delta.orig")
shutil.copy(os.path.join(WT, "target/debug/delta"), orig)
a = sh(f"git apply {src}/patch.diff", cwd=WT)
if a.returncode != 0:
    a = sh(f"git apply -3 {src}/patch.diff && git reset -q", cwd=WT)
    res["three_way"] = True
res["applies"] = a.returncode == 0
b = sh("cargo build --offline 2>&1 | tail -2", cwd=WT)
res["builds"] = "Finished" in b.stdout
d0 = sh(f"bash {src}/demo.sh {orig}", cwd=src)
d1 = sh(f"bash {src}/demo.sh {WT}/target/debug/delta", cwd=src)
res["demo_orig_rc"], res["demo_changed_rc"] = d0.returncode, d1.returncode
t = sh("cargo test --offline 2>&1 | grep -E '^test result' | head -3", cwd=WT)
res["tests"] = t.stdout.strip().replace("\n", " | ")[:200]
ok = res["applies"] and res["builds"] and d0.returncode == 0 and d1.returncode != 0 and "0 failed" in res["tests"] and "passed" in res["tests"]
res["confirmed"] = ok
if ok:
    dst = os.path.join(ROOT, "seeded", pid + "-" + name)
    os.makedirs(dst, exist_ok=True)
    for f in ([] if os.path.realpath(src) == os.path.realpath(dst) else os.listdir(src)):
        if f not in ("delta.changed",) and os.path.isfile(os.path.join(src, f)) and os.path.getsize(os.path.join(src, f)) < 2_000_000:
            shutil.copy(os.path.join(src, f), dst)
    # the patch as it applies to the current main
    newpatch = sh("git diff", cwd=WT).stdout
    with open(os.path.join(dst, "patch.diff"), "w") as f:
        f.write(newpatch)
    res["stored"] = os.path.relpath(dst, ROOT)
    checks = {}
    for c in [pid] + extra:
        p = subprocess.run(["./check", c, "--tier", "quick"], cwd=ROOT, capture_output=True, text=True,
                           env=dict(os.environ, VERIF_REPO=WT))
        lines = [l for l in p.stdout.split("\n") if l.startswith("VIOLATION") or l.startswith("[" + c)]
        nf = sum(1 for l in lines if l.startswith("VIOLATION") and l.endswith("no-failing-input-found"))
        conc = sum(1 for l in lines if l.startswith("VIOLATION") and not l.endswith("no-failing-input-found"))
        sigs = []
        for m in re.finditer(r"replay=(\S+)", p.stdout):
            try:
                o = json.load(open(m.group(1)))
                sigs.append(o.get("signature") or ("tie-broken: " + "; ".join(
                    [str(x)[:120] for x in o.get("broken_theorems", [])] +
                    [x.get("op", "?") for x in o.get("broken_correspondence", [])][:4])))
            except Exception:
                pass
        checks[c] = dict(rc=p.returncode, violations_with_replay=conc, violations_no_input=nf, signatures=sigs[:6],
                         summary=(lines[-1][:300] if lines else (p.stdout + p.stderr)[-300:]))
        m = re.search(r"replay=(\S+)", p.stdout)
        if m and os.path.exists(m.group(1)) and os.path.getsize(m.group(1)) < 200000:
            shutil.copy(m.group(1), os.path.join(dst, "replay-" + c + ".json"))
    res["checks"] = checks
    meta = {}
    try:
        meta = json.load(open(os.path.join(dst, "meta.json")))
    except Exception:
        pass
    meta["verif_confirmation"] = {k: res[k] for k in ("base", "applies", "builds", "demo_orig_rc", "demo_changed_rc", "tests")}
    meta["verif_checks"] = checks
    json.dump(meta, open(os.path.join(dst, "meta.json"), "w"), indent=1)
sh("git reset -q --hard && git clean -fdq -e target -e delta.orig", cwd=WT)
with open(os.path.join(ROOT, "seeded", "results.jsonl"), "a") as f:
    f.write(json.dumps(res) + "\n")
print(json.dumps(res, indent=1)[:2500])
