#!/usr/bin/env python3
"""Confirm a seeded change and run the check(s) against it.

usage: tools/seedtest.py <worktree> <property id> [extra check ids...]
The worktree (outside /repo and /verif) holds out/<id>/{patch.diff, demo.sh, meta.json, …} and delta.orig.
Steps: apply patch in the worktree; build; demo passes on delta.orig and fails on the changed binary;
`cargo test --offline` passes; copy artefacts to /verif/seeded/<id>/; run ./check with VERIF_REPO=<worktree>;
undo the patch; remove the scratch build dirs. Appends a result line to seeded/results.jsonl.
"""
import hashlib, json, os, re, shutil, subprocess, sys, time
ROOT = os.path.dirname(os.path.dirname(os.path.abspath(__file__)))
wt, pid, extra = sys.argv[1], sys.argv[2], sys.argv[3:]
src = os.path.join(wt, "out", pid)
def sh(cmd, **kw):
    return subprocess.run(cmd, shell=True, capture_output=True, text=True, **kw)
res = dict(property=pid, worktree=wt, at=time.strftime("%H:%M"))
sh("git checkout -- .", cwd=wt)
a = sh(f"git apply {src}/patch.diff", cwd=wt)
res["applies"] = a.returncode == 0
b = sh("cargo build --offline 2>&1 | tail -2", cwd=wt)
res["builds"] = "Finished" in b.stdout
orig = os.path.join(wt, "delta.orig")
d0 = sh(f"sh {src}/demo.sh {orig}", cwd=src)
d1 = sh(f"sh {src}/demo.sh {wt}/target/debug/delta", cwd=src)
res["demo_orig_rc"], res["demo_changed_rc"] = d0.returncode, d1.returncode
t = sh("cargo test --offline 2>&1 | grep -E '^test result' | head -3", cwd=wt)
res["tests"] = t.stdout.strip().replace("\n", " | ")[:200]
ok = res["applies"] and res["builds"] and d0.returncode == 0 and d1.returncode != 0 and "0 failed" in res["tests"]
res["confirmed"] = ok
if ok:
    dst = os.path.join(ROOT, "seeded", pid + "-" + os.path.basename(wt))
    os.makedirs(dst, exist_ok=True)
    for f in os.listdir(src):
        if f not in ("delta.changed",) and os.path.isfile(os.path.join(src, f)) and os.path.getsize(os.path.join(src, f)) < 2_000_000:
            shutil.copy(os.path.join(src, f), dst)
    res["stored"] = os.path.relpath(dst, ROOT)
    checks = {}
    for c in [pid] + extra:
        p = subprocess.run(["./check", c, "--tier", "quick"], cwd=ROOT, capture_output=True, text=True,
                           env=dict(os.environ, VERIF_REPO=wt))
        lines = [l for l in p.stdout.split("\n") if l.startswith("VIOLATION") or l.startswith("[" + c)]
        nf = sum(1 for l in lines if l.startswith("VIOLATION") and l.endswith("no-failing-input-found"))
        conc = sum(1 for l in lines if l.startswith("VIOLATION") and not l.endswith("no-failing-input-found"))
        checks[c] = dict(rc=p.returncode, violations_with_replay=conc, violations_no_input=nf,
                         summary=(lines[-1][:300] if lines else p.stdout[-300:]))
        # keep one replay for the record
        m = re.search(r"replay=(\S+)", p.stdout)
        if m and os.path.exists(m.group(1)) and os.path.getsize(m.group(1)) < 200000:
            shutil.copy(m.group(1), os.path.join(dst, "replay-" + c + ".json"))
    res["checks"] = checks
    meta = {}
    try:
        meta = json.load(open(os.path.join(dst, "meta.json")))
    except Exception:
        pass
    meta["verif_confirmation"] = {k: res[k] for k in ("applies", "builds", "demo_orig_rc", "demo_changed_rc", "tests")}
    meta["verif_checks"] = checks
    json.dump(meta, open(os.path.join(dst, "meta.json"), "w"), indent=1)
sh("git checkout -- .", cwd=wt)
h = hashlib.sha256(os.path.realpath(wt).encode()).hexdigest()[:10]
for d in (f"target-{h}", f"lean-{h}"):
    shutil.rmtree(os.path.join(ROOT, ".build", d), ignore_errors=True)
with open(os.path.join(ROOT, "seeded", "results.jsonl"), "a") as f:
    f.write(json.dumps(res) + "\n")
print(json.dumps(res, indent=1)[:1500])
