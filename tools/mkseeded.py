#!/usr/bin/env python3
"""seeded/RESULTS.md from the confirmed seeded changes (seeded/<id>-<name>/meta.json)."""
import glob, json, os
ROOT = os.path.dirname(os.path.dirname(os.path.abspath(__file__)))
rows = []
for d in sorted(glob.glob(os.path.join(ROOT, "seeded", "*", ""))):
    name = os.path.basename(d[:-1])
    try:
        m = json.load(open(os.path.join(d, "meta.json")))
    except Exception:
        continue
    conf = m.get("verif_confirmation", {})
    files = ", ".join(sorted({l[6:].strip() for l in open(os.path.join(d, "patch.diff")) if l.startswith("+++ b/")})) \
        if os.path.exists(os.path.join(d, "patch.diff")) else "?"
    summ = " ".join(str(m.get("summary", "")).split())
    if len(summ) > 230:
        summ = summ[:227] + "…"
    res = []
    for c, v in sorted(m.get("verif_checks", {}).items()):
        if v["rc"] == 0:
            res.append(f"{c}: **missed**")
        elif v["violations_with_replay"]:
            sig = "; ".join(s for s in v.get("signatures", [])[:2] if not s.startswith("tie-broken"))
            res.append(f"{c}: VIOLATION with replay ({v['violations_with_replay']}: {sig})")
        else:
            res.append(f"{c}: VIOLATION no-failing-input-found ({'; '.join(v.get('signatures', [])[:1])[:90]})")
    ok = conf.get("applies") and conf.get("builds") and conf.get("demo_orig_rc") == 0 and conf.get("demo_changed_rc") not in (0, None)
    confirmed = "yes (base %s)" % conf.get("base") if ok else "not confirmed"
    if m.get("superseded"):
        confirmed += "; superseded: " + str(m["superseded"])
    rows.append((name, files, summ, confirmed, "<br>".join(res) or "not run"))
out = ["Six waves of fresh sub-agents (10 agents per wave, two properties each; every wave was told which sites and mechanisms",
       "the earlier ones had used and asked for different ones; `*-rev-<commit>` entries are regression seeds written from",
       "repaired defects: the reverse of the fix). `tools/seedtest.py` applies each change to a scratch worktree of",
       "`/repo` HEAD, confirms it (builds; `demo.sh` exits 0 on the unchanged and non-zero on the changed binary; 430 tests pass)",
       "and runs `./check <id> --tier quick` against that tree. The last column is the verdict of the *final* checks; changes",
       "that an earlier version of a check missed are listed below the table with what was strengthened.", "",
       "| seeded change | files | what it does | confirmed | check verdict |", "|---|---|---|---|---|"]
for r in rows:
    out.append("| " + " | ".join(x.replace("|", "\\|").replace("\n", " ") for x in r) + " |")
extra = os.path.join(ROOT, "seeded", "STRENGTHENED.md")
if os.path.exists(extra):
    out += ["", open(extra).read().rstrip()]
open(os.path.join(ROOT, "seeded", "RESULTS.md"), "w").write("\n".join(out) + "\n")
print("seeded/RESULTS.md", len(rows), "rows")
