#!/usr/bin/env python3
"""setup: build hooked delta, regenerate tables, build theorems + drivers of every claimed check."""
import importlib, json, os, subprocess, sys
ROOT = os.path.dirname(os.path.dirname(os.path.abspath(__file__)))
sys.path.insert(0, ROOT)
from vlib import core
binp, log = core.build_impl()
if binp is None:
    print(log[-3000:]); sys.exit(1)
ok, xlog, _ = core.run_extract()
print(xlog, end="")
if not ok: sys.exit(1)
man = json.load(open(os.path.join(ROOT, "MANIFEST.json")))
targets = []
for c in man["checks"]:
    pid = c["property_id"]
    targets.append("Props." + pid)
    mod = importlib.import_module("vlib.props." + pid.lower())
    for d in getattr(mod, "DRIVERS", []):
        if d not in targets: targets.append(d)
ok, out = core.lake_build(targets)
print(out[-3000:])
if not ok:
    # One broken target must not take the other checks down with it: build the targets one by one, report what
    # fails (the check of that property reports the broken tie itself, with the proof log), and go on.
    failed = []
    for t in targets:
        ok1, out1 = core.lake_build([t])
        if not ok1:
            failed.append(t)
            print(f"setup: target {t} does not build:\n{out1[-1500:]}")
    print("setup: built all targets except: " + (", ".join(failed) or "none"))
sys.exit(0)
