#!/usr/bin/env python3
"""setup: build hooked delta, regenerate tables, build theorems + drivers of every claimed check."""
import importlib, json, os, subprocess, sys
ROOT = os.path.dirname(os.path.dirname(os.path.abspath(__file__)))
sys.path.insert(0, ROOT)
from vlib import core
binp, log = core.build_impl()
if binp is None:
    print(log[-3000:]); sys.exit(1)
ok, xlog, _ = core.run_extract()
print(xlog, end="")
if not ok: sys.exit(1)
man = json.load(open(os.path.join(ROOT, "MANIFEST.json")))
targets = []
for c in man["checks"]:
    pid = c["property_id"]
    targets.append("Props." + pid)
    mod = importlib.import_module("vlib.props." + pid.lower())
    for d in getattr(mod, "DRIVERS", []):
        if d not in targets: targets.append(d)
ok, out = core.lake_build(targets)
print(out[-3000:])
sys.exit(0 if ok else 1)
