#!/usr/bin/env python3
"""Which parts of /repo/src are inside the models, and how each is tied to them.

For every function outside `#[cfg(test)]` code of /repo/src (verif_hooks excluded) decide:
  X  its text is read by an extractor plugin (tools/extractors/*.py names the function or quotes a line of it):
     a table / shape of it is regenerated into lean/DeltaModel/Generated on every run;
  H  it is called from the cfg-guarded hook driver (src/verif_hooks/*.rs), i.e. a correspondence op reaches it directly;
  M  it is named in a Lean model / proof / property file (lean/DeltaModel, lean/Proofs, lean/Props) — hand-written model;
  -  none of these: reached only through whole-binary runs (oracle) or not at all.
Writes notes/COVERAGE.md (per file: counts and the functions without any tie) and prints a summary.
Purely syntactic; it documents the trusted base (DESIGN.md section 8), it is not a check.
"""
import glob, os, re, sys
ROOT = os.path.dirname(os.path.dirname(os.path.abspath(__file__)))
REPO = os.environ.get("VERIF_REPO", "/repo")
FN = re.compile(r"^\s*(?:pub(?:\([a-z]+\))?\s+)?(?:const\s+)?(?:unsafe\s+)?fn\s+([A-Za-z_][A-Za-z0-9_]*)")


def functions(path):
    """(name, first line, last line) of every fn outside test modules."""
    lines = open(path, encoding="utf-8", errors="replace").read().split("\n")
    out, depth, test_depth, i = [], 0, None, 0
    pending_test = False
    while i < len(lines):
        l = lines[i]
        s = l.strip()
        if s.startswith("#[cfg(test)]") or s.startswith("#[test]"):
            pending_test = True
        m = FN.match(l)
        if re.match(r"\s*(pub\s+)?mod\s+\w+\s*\{", l) and pending_test and test_depth is None:
            test_depth = depth
            pending_test = False
        if m and test_depth is None and not pending_test:
            # find the end of the fn: brace matching from its first '{'
            d, j, seen = 0, i, False
            while j < len(lines):
                for ch in re.sub(r'"(?:[^"\\]|\\.)*"|\'(?:[^\'\\]|\\.)\'|//.*', "", lines[j]):
                    if ch == "{":
                        d += 1; seen = True
                    elif ch == "}":
                        d -= 1
                if seen and d <= 0:
                    break
                if not seen and lines[j].rstrip().endswith(";"):
                    break
                j += 1
            out.append((m.group(1), i + 1, j + 1))
        elif m:
            pending_test = False
        for ch in re.sub(r'"(?:[^"\\]|\\.)*"|\'(?:[^\'\\]|\\.)\'|//.*', "", l):
            if ch == "{":
                depth += 1
            elif ch == "}":
                depth -= 1
                if test_depth is not None and depth <= test_depth:
                    test_depth = None
        i += 1
    return out


def read_all(pattern):
    return "\n".join(open(f, encoding="utf-8", errors="replace").read() for f in glob.glob(pattern, recursive=True))


def main():
    extract_src = read_all(os.path.join(ROOT, "tools", "extractors", "*.py")) + read_all(os.path.join(ROOT, "tools", "extract.py"))
    hooks_src = read_all(os.path.join(REPO, "src", "verif_hooks", "*.rs"))
    lean_src = read_all(os.path.join(ROOT, "lean", "DeltaModel", "**", "*.lean")) + \
        read_all(os.path.join(ROOT, "lean", "Proofs", "**", "*.lean")) + read_all(os.path.join(ROOT, "lean", "Props", "*.lean"))
    py_src = read_all(os.path.join(ROOT, "vlib", "**", "*.py"))
    rows, tot = [], dict(X=0, H=0, M=0, none=0, fns=0, lines=0, tied_lines=0)
    for path in sorted(glob.glob(os.path.join(REPO, "src", "**", "*.rs"), recursive=True)):
        rel = os.path.relpath(path, REPO)
        if "/verif_hooks/" in rel or "/tests/" in rel or rel.endswith("ansi_test_utils.rs"):
            continue
        fns = functions(path)
        if not fns:
            continue
        per, untied = dict(X=0, H=0, M=0, none=0), []
        for name, a, b in fns:
            if name in ("fmt", "new", "default", "from", "main", "eq", "hash", "deref", "drop", "clone", "next", "from_str"):
                w = r"\b%s::%s\b|\bfn %s\b" % (os.path.splitext(os.path.basename(rel))[0], name, name)
                pat = re.compile(w)
                named = lambda txt: bool(pat.search(txt)) and os.path.basename(rel) in txt
            else:
                pat = re.compile(r"\b%s\b" % re.escape(name))
                named = lambda txt: bool(pat.search(txt))
            tags = ""
            if named(extract_src):
                tags += "X"
            if named(hooks_src):
                tags += "H"
            if named(lean_src):
                tags += "M"
            n = b - a + 1
            tot["fns"] += 1; tot["lines"] += n
            if tags:
                tot["tied_lines"] += n
                for t in tags:
                    per[t] += 1; tot[t] += 1
            else:
                per["none"] += 1; tot["none"] += 1
                untied.append((name, n, "oracle" if named(py_src) else ""))
        rows.append((rel, len(fns), per, untied))
    out = ["# Coverage map: functions of /repo/src and how each is tied to the Lean models", "",
           "Generated by `tools/coverage_map.py` (syntactic; documents the trusted base, not a check). "
           "X = read by an extractor plugin (regenerated into `lean/DeltaModel/Generated`), H = called from the hook driver "
           "(a correspondence op reaches it directly), M = named in a Lean model / proof / property file. "
           "Functions with no tag are reached only through whole-binary runs (those named in a `vlib/` oracle are marked "
           "`oracle`) or not at all.", "",
           f"Total: {tot['fns']} functions, {tot['lines']} lines; tied (any tag): {tot['fns'] - tot['none']} functions, "
           f"{tot['tied_lines']} lines ({100 * tot['tied_lines'] // max(1, tot['lines'])} %); X {tot['X']}, H {tot['H']}, M {tot['M']}; "
           f"untied {tot['none']}.", "",
           "| file | fns | X | H | M | untied | untied functions (lines) |", "|---|---|---|---|---|---|---|"]
    for rel, n, per, untied in rows:
        u = ", ".join(f"`{a}` ({b}{', ' + c if c else ''})" for a, b, c in sorted(untied, key=lambda x: -x[1])[:14])
        if len(untied) > 14:
            u += f", … +{len(untied) - 14}"
        out.append(f"| {rel} | {n} | {per['X']} | {per['H']} | {per['M']} | {per['none']} | {u} |")
    text = "\n".join(out) + "\n"
    if "--stdout" in sys.argv:
        print(text)
    else:
        open(os.path.join(ROOT, "notes", "COVERAGE.md"), "w").write(text)
    print(out[4])


if __name__ == "__main__":
    main()
