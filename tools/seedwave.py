#!/usr/bin/env python3
"""Process the deliveries of a seeding wave: tools/seedwave.py <wave dir> <wave tag> [Cxx ...]
For every <wave dir>/out-NN/Cxx/ holding patch.diff + demo.sh + meta.json that has no seeded/Cxx-<tag>-NN yet (or that is
named on the command line) run tools/seedtest.py (confirmation + ./check Cxx --tier quick against the changed tree).
Extra checks to run for a property can be given as Cxx+Cyy."""
import glob, json, os, subprocess, sys
ROOT = os.path.dirname(os.path.dirname(os.path.abspath(__file__)))
wave, tag = sys.argv[1], sys.argv[2]
only = {a.split("+")[0]: a.split("+")[1:] for a in sys.argv[3:]}
for d in sorted(glob.glob(os.path.join(wave, "out-*", "C??"))):
    pid = os.path.basename(d)
    nn = os.path.basename(os.path.dirname(d)).split("-")[1]
    name = f"{tag}-{nn}"
    if not all(os.path.exists(os.path.join(d, f)) for f in ("patch.diff", "demo.sh", "meta.json")):
        continue
    done = os.path.exists(os.path.join(ROOT, "seeded", f"{pid}-{name}", "meta.json")) and \
        "verif_checks" in json.load(open(os.path.join(ROOT, "seeded", f"{pid}-{name}", "meta.json")))
    if only and pid not in only:
        continue
    if done and not only:
        continue
    print("===", pid, name, flush=True)
    p = subprocess.run([sys.executable, os.path.join(ROOT, "tools", "seedtest.py"), d, pid] + only.get(pid, []) + ["--name", name],
                       capture_output=True, text=True)
    try:
        r = json.loads(p.stdout[p.stdout.index("{"):])
        print(pid, name, "confirmed" if r.get("confirmed") else "NOT CONFIRMED",
              {k: r[k] for k in ("applies", "builds", "demo_orig_rc", "demo_changed_rc", "tests") if k in r})
        for c, v in r.get("checks", {}).items():
            print("   ", c, "rc", v["rc"], "with-replay", v["violations_with_replay"], "no-input", v["violations_no_input"], v["signatures"][:3])
    except Exception:
        print(p.stdout[-1500:], p.stderr[-1500:])
