#!/usr/bin/env python3
"""Regenerate MANIFEST.json from tools/manifest_src.json (claims) + properties.jsonl."""
import json, os, subprocess
ROOT = os.path.dirname(os.path.dirname(os.path.abspath(__file__)))
src = json.load(open(os.path.join(ROOT, "tools", "manifest_src.json")))
props = [json.loads(l)["id"] for l in open(os.path.join(ROOT, "properties.jsonl"))]
hooks = subprocess.run(["git", "-C", "/repo", "log", "--format=%H %s", "e99212b..HEAD"], capture_output=True, text=True).stdout.strip().split("\n")
hook_commits = [l.split()[0] for l in hooks if l and not l.split(" ", 1)[1].startswith("fix:")]
checks, na = [], []
for pid in props:
    c = src["claims"].get(pid)
    if not c:
        na.append(dict(property_id=pid, reason=src["pending"].get(pid, "check not built yet in this round; planned per DESIGN.md section 5")))
        continue
    checks.append(dict(
        property_id=pid,
        quick_cmd=f"./check {pid} --tier quick",
        thorough_cmd=f"./check {pid} --tier thorough",
        evidence_file=f"/verif/evidence/{pid}.json",
        replay_cmd_template=f"./check {pid} --replay {{path}}",
        engine="lean4-model+correspondence",
        level_claimed=dict(category="proof", text=c["text"], design_ref=f"DESIGN.md section 5 {pid}"),
        level_note=c["note"],
        technique=c.get("technique", "Lean 4 theorems over an executable model; model tied to source by regenerated tables + differential correspondence with the hooked implementation"),
    ))
m = dict(
    version=1,
    setup_cmd="./setup.sh",
    hooks=dict(
        guard="dandavison_delta_verif",
        enable='RUSTFLAGS="--cfg dandavison_delta_verif --check-cfg cfg(dandavison_delta_verif) -Awarnings" CARGO_TARGET_DIR=/verif/.build/target cargo build --offline',
        baseline_off_cmd="cd /repo && cargo nextest run --workspace --no-fail-fast --test-threads 8 --offline || cargo test --workspace --no-fail-fast --offline",
        source_commits=hook_commits,
        add_only=True,
    ),
    engines=[dict(name="lean4-model+correspondence", path="/verif/check",
                  serves_properties=[c["property_id"] for c in checks],
                  kind_free_text="Lean 4 proofs over executable models (lean/), models tied to /repo by tools/extract.py (regenerated tables) and by differential correspondence through src/verif_hooks (cfg-guarded) and the delta binary")],
    checks=checks,
    notes=src.get("notes", ""),
    not_applicable=na,
)
json.dump(m, open(os.path.join(ROOT, "MANIFEST.json"), "w"), indent=1)
print("claimed:", [c["property_id"] for c in checks])
