#!/usr/bin/env python3
"""Run every claimed check (quick tier, or the tier given) against /repo one after the other, validate the evidence files
against the schema, print a summary. usage: tools/runall.py [quick|thorough] [ids…]"""
import json, os, subprocess, sys, time
ROOT = os.path.dirname(os.path.dirname(os.path.abspath(__file__)))
tier = sys.argv[1] if len(sys.argv) > 1 and sys.argv[1] in ("quick", "thorough") else "quick"
ids = [a for a in sys.argv[1:] if a.startswith("C")] or [p["property_id"] for p in json.load(open(os.path.join(ROOT, "MANIFEST.json")))["checks"]]
try:
    import jsonschema
    sch = json.load(open("/root/.vp/EVIDENCE.schema.json"))
except Exception:
    jsonschema = None
bad = 0
for c in ids:
    t0 = time.time()
    env = {k: v for k, v in os.environ.items() if k != "VERIF_REPO"}
    p = subprocess.run(["./check", c, "--tier", tier], cwd=ROOT, capture_output=True, text=True, env=env)
    lines = [l for l in p.stdout.split("\n") if l.startswith(("VIOLATION", "KNOWN-FINDING"))]
    ev = "?"
    if jsonschema:
        try:
            jsonschema.validate(json.load(open(os.path.join(ROOT, "evidence", c + ".json"))), sch); ev = "evidence ok"
        except Exception as e:
            ev = "EVIDENCE INVALID: " + str(e)[:80]; bad += 1
    nv = sum(1 for l in lines if l.startswith("VIOLATION"))
    nk = sum(1 for l in lines if l.startswith("KNOWN"))
    bad += (p.returncode != 0) + (nv > 0)
    print(f"{c} rc={p.returncode} violations={nv} known={nk} {ev} {time.time() - t0:.0f}s", flush=True)
    for l in lines:
        if l.startswith("VIOLATION"):
            print("   ", l)
print("ALL OK" if not bad else f"{bad} PROBLEMS")
