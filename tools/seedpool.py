#!/usr/bin/env python3
"""Poll <wave dir>/out-NN/Cxx/ and run tools/seedtest.py on each finished delivery, N in parallel (own SEED_WT each).
usage: tools/seedpool.py <wave dir> <tag> [workers=3]   (log: /root/<tag>-seedwave.log)"""
import glob, json, os, subprocess, sys, threading, time
ROOT = os.path.dirname(os.path.dirname(os.path.abspath(__file__)))
wave, tag = sys.argv[1], sys.argv[2]
workers = int(sys.argv[3]) if len(sys.argv) > 3 else 3
LOG = f"/root/{tag}-seedwave.log"
lock = threading.Lock()
started = set()


def pending():
    out = []
    for d in sorted(glob.glob(os.path.join(wave, "out-*", "C??"))):
        pid = os.path.basename(d)
        nn = os.path.basename(os.path.dirname(d)).split("-")[1]
        name = f"{tag}-{nn}"
        if not all(os.path.exists(os.path.join(d, f)) for f in ("patch.diff", "demo.sh", "meta.json")):
            continue
        if time.time() - os.path.getmtime(os.path.join(d, "meta.json")) < 120:
            continue
        m = os.path.join(ROOT, "seeded", f"{pid}-{name}", "meta.json")
        if os.path.exists(m) and "verif_checks" in json.load(open(m)):
            continue
        out.append((d, pid, name))
    return out


def worker(k):
    while True:
        with lock:
            job = next((j for j in pending() if j not in started), None)
            if job:
                started.add(job)
        if not job:
            time.sleep(60)
            continue
        d, pid, name = job
        env = dict(os.environ, SEED_WT=f"/tmp/seed-wt-p{k}")
        p = subprocess.run([sys.executable, os.path.join(ROOT, "tools", "seedtest.py"), d, pid, "--name", name],
                           capture_output=True, text=True, env=env, cwd=ROOT)
        with lock, open(LOG, "a") as f:
            try:
                r = json.loads(p.stdout[p.stdout.index("{"):])
                f.write(f"{pid} {name} {'confirmed' if r.get('confirmed') else 'NOT CONFIRMED'} "
                        f"{ {x: r[x] for x in ('applies', 'builds', 'demo_orig_rc', 'demo_changed_rc', 'tests') if x in r} }\n")
                for c, v in r.get("checks", {}).items():
                    f.write(f"    {c} rc {v['rc']} with-replay {v['violations_with_replay']} no-input {v['violations_no_input']} {v['signatures'][:3]}\n")
            except Exception:
                f.write(f"{pid} {name} ERROR {p.stdout[-800:]} {p.stderr[-800:]}\n")


for k in range(workers):
    threading.Thread(target=worker, args=(k,), daemon=True).start()
while True:
    time.sleep(3600)
