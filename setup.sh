#!/bin/sh
# Build the framework from files on disk only (offline): hooked delta, generated tables,
# all Lean models/proofs, all model drivers.
set -e
cd "$(dirname "$0")"
export CARGO_NET_OFFLINE=true
mkdir -p .build
(cd /repo && RUSTFLAGS="--cfg dandavison_delta_verif --check-cfg cfg(dandavison_delta_verif) -Awarnings" \
  CARGO_TARGET_DIR=/verif/.build/target cargo build --offline --quiet)
python3 tools/extract.py /repo lean/DeltaModel/Generated
cd lean
lake build
exes=$(grep -A1 '^\[\[lean_exe\]\]' lakefile.toml | sed -n 's/^name = "\(.*\)"/\1/p')
[ -z "$exes" ] || lake build $exes
