#!/bin/sh
# Build the framework from files on disk only (offline): hooked delta, generated tables,
# the Lean theorems and model drivers of every claimed check.
set -e
cd "$(dirname "$0")"
export CARGO_NET_OFFLINE=true
exec python3 tools/setup_build.py
