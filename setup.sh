#!/bin/sh
# Build the framework from files on disk only (offline): hooked delta, generated tables,
# all Lean models/proofs, all model drivers.
set -e
cd "$(dirname "$0")"
export CARGO_NET_OFFLINE=true
mkdir -p .build
(cd /repo && RUSTFLAGS="--cfg dandavison_delta_verif --check-cfg cfg(dandavison_delta_verif) -Awarnings" \
  CARGO_TARGET_DIR=/verif/.build/target cargo build --offline --quiet)
python3 tools/extract.py /repo lean/DeltaModel/Generated
cd lean
lake build
for exe in $(sed -n 's/^name = "\(drv_.*\)"/\1/p' lakefile.toml); do
  root=$(grep -A1 "^name = \"$exe\"" lakefile.toml | sed -n 's/^root = "\(.*\)"/\1/p' | tr . /)
  [ -f "$root.lean" ] && exes="$exes $exe"
done
[ -z "$exes" ] || lake build $exes
